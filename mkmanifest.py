#!/usr/bin/env python3
"""Regenerates MANIFEST.json from registry.py (claimed checks) and the fixed
not-applicable table below. Run after editing the registry."""
import json, os, subprocess
import registry

ROOT = os.path.dirname(os.path.abspath(__file__))

NA = {
    "C06": "value reconstruction needs f64 number parsing, String decoding and a second JSON parser as oracle; heap trees from symbolic input are far beyond the bounded model checker (DESIGN §6); its mechanisms are claimed under C04/C05/C07/C32",
    "C10": "floating-point shortest-decimal formatting/parsing through core::fmt/libm: not decidable by CBMC's float bit-blasting within reach (DESIGN §6)",
    "C11": "observable is CLI stdout of a spawned process over heap values; no symbolic encoding within reach (DESIGN §6)",
    "C14": "depends on the 7,000-line YAML oracle parser over generated documents (DESIGN §6)",
    "C15": "CLI + YAML emitter + evaluator over heap values (DESIGN §6)",
    "C18": "YAML validator over generated documents; recursive heap-heavy parser (DESIGN §6)",
    "C19": "spans all loaders, printers, CLIs and the jq parser; only a by-product slice (panic freedom of the encoded kernels) is available and reported under other properties (DESIGN §6)",
    "C22": "@csv/@dsv formatting is a branch of the jq evaluator over OwnedValue; decoder lives in the binary crate (DESIGN §6)",
    "C23": "evaluates jq programs (54k-line evaluator over Rc/IndexMap/String values) (DESIGN §6)",
    "C24": "needs jq 1.7.1 (absent) and the evaluator/CLI (DESIGN §6)",
    "C25": "evaluates jq programs (DESIGN §6)",
    "C26": "CLI process observable (DESIGN §6)",
    "C27": "CLI process observable (DESIGN §6)",
    "C28": "evaluates jq programs (DESIGN §6)",
    "C29": "YAML oracle parser / evaluator (DESIGN §6)",
    "C30": "evaluates jq programs (DESIGN §6)",
}
PENDING = "claimed in DESIGN.md but its check is not built yet; listed here until the harnesses are registered"

LEVEL_TEXT = {}

def main():
    ids = [json.loads(l)["id"] for l in open(os.path.join(ROOT, "properties.jsonl"))]
    checks = []
    na = []
    for pid in ids:
        if pid in registry.PROPS:
            P = registry.PROPS[pid]
            checks.append(dict(
                property_id=pid,
                quick_cmd="./check %s --tier quick" % pid,
                thorough_cmd="./check %s --tier thorough" % pid,
                evidence_file="/verif/evidence/%s.json" % pid,
                replay_cmd_template="./check %s --replay {path}" % pid,
                engine="kani-cbmc",
                level_claimed=dict(
                    category="model_checking",
                    text=P.get("level_text") or (
                        "Bounded symbolic model checking of the real functions: Kani compiles /repo's working tree to a "
                        "goto program, CBMC unrolls it and CaDiCaL decides every assertion for ALL values of the symbolic "
                        "inputs within the stated bounds (" + P.get("bounds", "") + "); unwinding assertions on, "
                        "reachability witnessed by kani::cover!. Nothing outside the bounds is claimed."),
                    design_ref="DESIGN.md §5 " + pid,
                ),
                level_note=("Trusted: rustc MIR -> Kani 0.68 -> CBMC 6.11 -> CaDiCaL; intrinsic models in harness/src/models.rs "
                            "(validated against this CPU on every run); dispatch stubs; reference specs in harness/src/spec.rs. "
                            "Outside the claim: " + P.get("outside", "")),
                technique="bounded model checking (Kani/CBMC symbolic execution + SAT) of the real code against a reference spec",
            ))
        else:
            na.append(dict(property_id=pid, reason=NA.get(pid, PENDING)))
    hooks_commits = subprocess.run(
        ["git", "-C", "/repo", "log", "--format=%H", "--grep=^verif-hooks"], capture_output=True, text=True
    ).stdout.split()
    man = dict(
        version=1,
        setup_cmd="./check --setup",
        hooks=dict(
            guard="verif-hooks",
            enable="cargo feature: succinctly = { path = \"/repo\", features = [\"verif-hooks\"] } (harness/Cargo.toml)",
            baseline_off_cmd="cd /repo && cargo nextest run --workspace --no-fail-fast --test-threads 8 --offline || cargo test --workspace --no-fail-fast --offline",
            source_commits=hooks_commits,
            add_only=True,
        ),
        engines=[dict(name="kani-cbmc", path="/verif/check", serves_properties=sorted(registry.PROPS),
                      kind_free_text="Kani 0.68 proof harnesses (harness/) over /repo as a path dependency; CBMC 6.11 + CaDiCaL decide each harness; driver ./check parses results, replays counterexamples natively, writes evidence")],
        checks=checks,
        not_applicable=na,
        notes="Exit codes: 0 held within bounds, 1 VIOLATION (natively reproduced counterexample), 2 inconclusive (timeout/OOM/unwinding/unsupported/vacuous). See DESIGN.md.",
    )
    json.dump(man, open(os.path.join(ROOT, "MANIFEST.json"), "w"), indent=1)
    print("checks:", [c["property_id"] for c in checks])
    print("not_applicable:", [n["property_id"] for n in na])

main()

#!/usr/bin/env python3
"""development aid: drop thorough-only harnesses without a recorded successful validation run
(.cache/val_<ID>.out, .cache/valw_<ID>.out) from registry.py; set mem_gb=12 on the survivors."""
import re, glob, sys
sys.path.insert(0, "/verif")
import registry
ok = set(); seen = set()
for f in glob.glob("/verif/.cache/val_*.out") + glob.glob("/verif/.cache/valw_*.out") + glob.glob("/verif/.cache/val2_*.out"):
    for line in open(f):
        m = re.match(r"\[(C\d+)\] (\S+?)(\[[\w-]+\])?\s+(discharged|known-finding|inconclusive|vacuous|counterexample|unreproduced|harness-bug|unsupported)\s", line)
        if not m:
            continue
        key = (m.group(2), (m.group(3) or "[default]")[1:-1])
        seen.add(key)
        kindok = m.group(4) in ("discharged", "known-finding")
        if kindok or (m.group(4) == "counterexample" and "witness" in m.group(2)):
            ok.add(key)
src = open("/verif/registry.py").read().split("\n")
out = []; dropped = []; kept = []
for ln in src:
    m = re.match(r'\s+H\("(\w+)"', ln)
    if m and 'tier="thorough"' in ln:
        fs = re.search(r'fs="([\w-]+)"', ln)
        key = (m.group(1), fs.group(1) if fs else "default")
        if key not in ok:
            dropped.append(key); continue
        if "witness" not in key[0]:
            ln = re.sub(r"mem_gb=\d+", "mem_gb=12", ln) if "mem_gb=" in ln else ln.replace('tier="thorough"', 'tier="thorough", mem_gb=12')
        kept.append(key)
    out.append(ln)
if "--apply" in sys.argv:
    open("/verif/registry.py", "w").write("\n".join(out))
print("kept", len(kept), "dropped", len(dropped))
for k in dropped: print("  drop", k, "(ran, failed)" if k in seen else "(not validated)")

"""Harness registry: which Kani harnesses decide which property, in which tier.

Fields per harness:
  name      function name in harness/src/<module>.rs
  tier      "quick" (default; also run in thorough) or "thorough"
  fs        feature set of the succinctly build: default | simd | portable-popcount | scalar-yaml
  kind      proof (default) | witness (deliberately wrong, must be refuted) | finding (known finding still present)
  timeout   seconds (quick tier cap); timeout_thorough optional
  bounds    human-readable bound of this solver query (goes into the evidence)
  replay    playback (default) | trace (counterexample depends on a forced non-host dispatch path)
"""


def H(name, **kw):
    d = dict(name=name)
    d.update(kw)
    return d


PROPS = {}

PROPS["C02"] = dict(
    module="c02",
    bounds="every u64 word, every u32 k / p (full width); every [u64; 8] block; every [u8; 64]",
    outside="aarch64 NEON/SVE2 kernels; AVX-512 popcount path of the `simd` build (see C01 simd build)",
    assumptions=["_pdep_u64, _mm256_shuffle_epi8, _mm256_sad_epu8 replaced by models.rs"],
    harnesses=[
        H("c02_select_ctz", tier="quick", timeout=900, bounds="all x:u64, all k:u32, unwind 66"),
        H("c02_select_pdep", tier="quick", timeout=600, bounds="all x:u64, all k:u32; PDEP model"),
        H("c02_select_broadword", tier="quick", timeout=900, bounds="all x:u64, all k:u32"),
        H("c02_select_dispatch", tier="quick", timeout=900, bounds="all x, k; has_fast_bmi2 solver-chosen", replay="trace"),
        H("c02_select_in_byte", tier="quick", timeout=120, bounds="all bytes, all k:u32"),
        H("c02_popcount_word", tier="quick", timeout=300, bounds="all x:u64"),
        H("c02_popcount_512", tier="quick", timeout=600, bounds="all [u8; 64]"),
        H("c02_block_popcount_portable", tier="quick", timeout=600, bounds="all [u64; 8]"),
        H("c02_block_popcount_avx2", tier="quick", timeout=600, bounds="all [u64; 8], lane-order byte-wise spec"),
        H("c02_block_popcount_avx2_oneword", tier="quick", timeout=600, bounds="one arbitrary word at arbitrary position, rest zero"),
        H("c02_find_unmatched_close_in_word", tier="quick", timeout=600, bounds="all x:u64"),
        H("c02_find_close_in_word", tier="quick", timeout=900, bounds="all x:u64, all p:u32"),
        H("c02_contract_sound", tier="quick", timeout=900, bounds="all x, k: contract result == spec"),
        H("c02_contract_total", tier="quick", timeout=900, bounds="all x, k: spec result satisfies the contract"),
        H("c02_witness_must_fail", tier="thorough", kind="witness", timeout=300, bounds="vacuity witness"),
    ],
)

SEL64 = {"select_in_word_ctz": 66, "pdep_u64": 66}


def bvu(inner):
    d = dict(SEL64)
    d[r"SelectIndex.*5build.*\.0$"] = inner
    return d


DENSE = {r"SelectIndex.*5build.*\.1$": 50, r"SelectIndex.*5build.*\.0$": 4, r"prefix|c01_": 50}
DENSE7 = {r"SelectIndex.*5build.*\.1$": 50, r"SelectIndex.*5build.*\.0$": 8, r"prefix|c01_": 50}

SPARSE = {r"SelectIndex.*5build.*\.1$": 272, r"SelectIndex.*5build.*\.0$": 4, r"c01_": 272}

PROPS["C01"] = dict(
    module="c01",
    bounds='rank directory: all contents of 9/17 words; select index: all contents of 3-4 words at concrete rates {64,100,256,4096} and a dense 48-word skeleton at rate 100; scan_select: all contents of 9/19/27 words from concrete start words, every remaining count, both block-popcount paths; whole BitVec rank: all contents of 2 words + 1 surplus word (stray bits arbitrary), lengths {65,100,128}, rates {64,256,4096}; BitVec of length 0 and 1; BMI2 dispatch solver-chosen',
    outside=("vectors longer than 27 words in one piece (covered compositionally only), L0 superblocks (2^32 bits), serde, "
             "`simd`/`portable-popcount` builds of the whole BitVec (popcount kernels themselves are in C02), lengths and rates not listed; "
             "whole-BitVec harnesses take the AVX2 block-popcount path (portable path decided in the scan harnesses)"),
    assumptions=["has_fast_bmi2 is a solver-chosen boolean; is_x86_feature_detected!(avx2) fixed per harness as listed",
                 "_pdep_u64, _mm256_shuffle_epi8, _mm256_sad_epu8 replaced by models.rs"],
    harnesses=[
        H("c01_rankdir_9", tier="quick", timeout=300, bounds="all [u64; 9]"),
        H("c01_rankdir_17", tier="thorough", mem_gb=12, timeout=900, bounds="all [u64; 17]"),
        H("c01_selidx_4w_rate64", tier="quick", timeout=900, bounds="all [u64; 4], rate 64"),
        H("c01_selidx_4w_rate100", tier="thorough", mem_gb=12, timeout=900, bounds="all [u64; 4], rate 100"),
        H("c01_selidx_4w_rate256", tier="quick", timeout=900, bounds="all [u64; 4], rate 256"),
        H("c01_selidx_3w_rate4096", tier="thorough", mem_gb=12, timeout=900, bounds="all [u64; 3], rate 4096"),
        H("c01_selidx_dense48_rate100", tier="quick", timeout=1800, unwindset=DENSE, bounds="48-word dense skeleton (1536 ones) with one arbitrary word, rate 100, every k"),
        H("c01_scan_19_s0_portable", tier="quick", timeout=900, bounds="19 words, start 0, portable block popcount"),
        H("c01_scan_19_s3_portable", tier="thorough", mem_gb=12, timeout=900, bounds="19 words, start 3"),
        H("c01_scan_19_s10_any", tier="quick", timeout=900, bounds="19 words, start 10 (prologue 8 + 1 tail word), dispatch symbolic", replay="trace"),
        H("c01_scan_27_s0_portable", tier="thorough", mem_gb=12, timeout=1800, bounds="27 words, start 0: two blocks"),
        H("c01_scan_9_s0_any", tier="quick", timeout=600, bounds="9 words, start 0 (prologue + 1-word tail)", replay="trace"),
        H("c01_scan_start_out_of_range", tier="quick", timeout=120, bounds="all start >= len"),
        H("c01_popcount_words_9", tier="quick", timeout=300, bounds="all [u64; 9], every prefix length"),
        H("c01_bv_rank_len100_rate256", tier="thorough", mem_gb=12, timeout=900, unwindset=bvu(3), bounds="2+1 words, len 100, rate 256, all i <= 200", replay="trace"),
        H("c01_bv_rank_len128_rate64", tier="thorough", mem_gb=12, timeout=900, unwindset=bvu(4), bounds="len 128, rate 64", replay="trace"),
        H("c01_bv_rank_len65_rate4096", tier="thorough", mem_gb=12, timeout=900, unwindset=bvu(3), bounds="len 65, rate 4096", replay="trace"),
        H("c01_bv_len0_len1", tier="quick", timeout=600, unwindset=SEL64, bounds="len 0 and len 1 over arbitrary words, rate symbolic", replay="trace"),
        H("c01_witness_must_fail", tier="thorough", kind="witness", timeout=300, bounds="vacuity witness"),
    ],
)

# n <= 8 elements: the upper-bits vector is one word, so the 4-word AVX2 block popcount inside scan_select is
# unreachable; its lane loops keep the small global bound (an unwinding assertion fails if that ever changes)
NOAVX = {r"core_arch.*_mm256_": 9}
EFU = dict(SEL64)
EFU.update({"advance_by": 66})
EFU.update(NOAVX)


def efk(k):
    d = dict(SEL64)
    d["advance_by"] = k
    d.update(NOAVX)
    return d


SK300 = {"advance_by": 72, r"EliasFano.*5build": 304, r"skeleton300": 304, r"Windows": 304, r"EliasFano.*11predecessor": 11,
         r"scan_select|scan_scalar": 16, r"extend_with": 20, r"EliasFano.*6cursor": 16}
PRED4 = dict(EFU)
PRED4.update({r"EliasFano.*11predecessor": 4})
PRED8 = dict(EFU)
PRED8.update({r"EliasFano.*11predecessor": 5})

PROPS["C03"] = dict(
    module="c03",
    bounds=("n in {1,4,5,6,8} concrete, last element concrete in {n-1 or small (low_width 0), 200, 1000, 2^20, u32::MAX}; all other "
            "elements arbitrary non-decreasing u32; every index i:usize, every predecessor query q:u32; cursor: every start index, "
            "every op in {current, advance_one, advance_by(k), seek(t)} with k,t <= 6..70, one-step induction with canonical-state equality"),
    outside=("n > 8 with symbolic contents; sequences crossing the 256-element select sample (only via C12 concrete skeletons); "
             "portable block popcount inside the EF scan (C01 decides scan_select on both paths)"),
    assumptions=["AVX2 block popcount path taken and modelled (kernel decided in C02)", "in-word select on the CTZ path unless noted"],
    harnesses=[
        H("c03_get_n1_last0", tier="quick", timeout=600, unwindset=EFU, bounds="n=1, last=0"),
        H("c03_get_n1_lastmax", tier="thorough", mem_gb=12, timeout=600, unwindset=EFU, bounds="n=1, last=u32::MAX"),
        H("c03_get_n4_last3", tier="quick", timeout=600, unwindset=EFU, bounds="n=4, last=3 (low_width 0)"),
        H("c03_get_n4_last1000", tier="quick", timeout=600, unwindset=EFU, bounds="n=4, last=1000"),
        H("c03_get_n4_last1000_pdep", tier="quick", timeout=600, unwindset=EFU, bounds="n=4, last=1000, PDEP select path"),
        H("c03_get_n4_lastmax", tier="quick", timeout=600, unwindset=EFU, bounds="n=4, last=u32::MAX"),
        H("c03_get_n6_last1m", tier="thorough", mem_gb=12, timeout=900, unwindset=EFU, bounds="n=6, last=2^20"),
        H("c03_get_n8_last1000", tier="thorough", mem_gb=12, timeout=900, unwindset=EFU, bounds="n=8, last=1000"),
        H("c03_get_n8_last7", tier="thorough", mem_gb=12, timeout=900, unwindset=EFU, bounds="n=8, last=7 (dense)"),
        H("c03_pred_n4_last1000", tier="quick", mem_gb=16, timeout=900, unwindset=PRED4, bounds="n=4, last=1000, all q"),
        H("c03_pred_n4_lastmax", tier="thorough", mem_gb=12, timeout=900, unwindset=PRED4, bounds="n=4, last=u32::MAX, all q"),
        H("c03_pred_n6_last5", tier="thorough", mem_gb=12, timeout=900, unwindset=PRED4, bounds="n=6, last=5 (duplicates forced)"),
        H("c03_pred_n8_last1000", tier="thorough", mem_gb=12, timeout=1800, unwindset=PRED8, bounds="n=8, last=1000"),
        H("c03_iter_n4_last1000", tier="quick", mem_gb=16, timeout=600, unwindset=EFU, bounds="n=4 iteration"),
        H("c03_iter_n6_last1m", tier="thorough", mem_gb=12, timeout=900, unwindset=EFU, bounds="n=6 iteration"),
        H("c03_iter_n5_last4", tier="thorough", mem_gb=12, timeout=600, unwindset=EFU, bounds="n=5 dense iteration"),
        H("c03_cursor_current_n4_last1000", tier="quick", mem_gb=16, timeout=1200, unwindset=efk(8), bounds="one-step induction: current_n4_last1000"),
        H("c03_cursor_adv1_n4_last1000", tier="quick", mem_gb=16, timeout=1200, unwindset=efk(8), bounds="one-step induction: adv1_n4_last1000"),
        H("c03_cursor_advby_n4_last1000", tier="quick", mem_gb=16, timeout=1200, unwindset=efk(8), bounds="one-step induction: advby_n4_last1000"),
        H("c03_cursor_seek_n4_last1000", tier="quick", mem_gb=16, timeout=1200, unwindset=efk(8), bounds="one-step induction: seek_n4_last1000"),
        H("c03_cursor_adv1_n4_lastmax", tier="thorough", mem_gb=12, timeout=1200, unwindset=efk(8), bounds="one-step induction: adv1_n4_lastmax"),
        H("c03_cursor_advby_n4_lastmax", tier="thorough", mem_gb=12, timeout=1200, unwindset=efk(8), bounds="one-step induction: advby_n4_lastmax"),
        H("c03_cursor_adv1_n6_last5", tier="thorough", mem_gb=12, timeout=1200, unwindset=efk(10), bounds="one-step induction: adv1_n6_last5"),
        H("c03_cursor_advby_n6_last5", tier="thorough", mem_gb=12, timeout=1200, unwindset=efk(10), bounds="one-step induction: advby_n6_last5"),
        H("c03_cursor_seek_n6_last5", tier="thorough", mem_gb=12, timeout=1200, unwindset=efk(10), bounds="one-step induction: seek_n6_last5"),
        H("c03_cursor_adv1_n8_last1000", tier="thorough", mem_gb=12, timeout=1200, unwindset=efk(12), bounds="one-step induction: adv1_n8_last1000"),
        H("c03_cursor_advby_n8_last1000", tier="thorough", mem_gb=12, timeout=1200, unwindset=efk(12), bounds="one-step induction: advby_n8_last1000"),
        H("c03_cursor_adv1_n6_last300", tier="thorough", mem_gb=12, timeout=1200, unwindset=efk(10), bounds="one-step induction: adv1_n6_last300"),
        H("c03_cursor_advby_n6_last300", tier="thorough", mem_gb=12, timeout=1200, unwindset=efk(10), bounds="one-step induction: advby_n6_last300"),
        H("c03_cursor_exhausted_n4_last1000", tier="quick", mem_gb=16, timeout=1200, unwindset=efk(8), bounds="any op after exhaustion"),
        H("c03_cursor0_and_empty", tier="quick", mem_gb=16, timeout=600, unwindset=EFU, bounds="cursor()==cursor_from(0); empty sequence"),
        H("c03_witness_must_fail", tier="thorough", kind="witness", timeout=600, unwindset=EFU),
    ],
)

def l12(n, lines):
    """n = text length, lines = maximum number of line starts."""
    return {r"spec_lc|spec_off|c12_": n + 3, r"LineIndex.*5build": n + 2, r"filter|5count|Filter|fold": n + 2,
            r"ef_build|ef_predecessor|EliasFano.*5build|EliasFano.*11predecessor": lines + 2, r"walk_forward_from": min(18, lines + 2)}


PROPS["C12"] = dict(
    module="c12",
    bounds=("all texts of 0..=8 arbitrary bytes with every query pair (q1; q2; q2 repeated) up to len+2, every (line, column) up to len+2; "
            "two concrete skeleton texts of 20 and 40 lines (LF/CRLF/CR mixes, empty lines) with every query pair up to len+3"),
    outside="symbolic texts longer than 10 bytes; texts with more than 48 lines; the EliasFano encoding itself (C03)",
    assumptions=["the EliasFano container (build/get/predecessor/len) is replaced by its plain-sequence specification; C03 decides that the real one answers identically"],
    harnesses=[
        H("c12_text_len0", tier="quick", timeout=2700, unwindset=l12(0, 1), bounds="all 0-byte texts, all query histories (q1; q2; q2)"),
        H("c12_text_len1", tier="quick", timeout=2700, unwindset=l12(1, 1), bounds="all 1-byte texts, all query histories (q1; q2; q2)"),
        H("c12_text_len2", tier="quick", timeout=2700, unwindset=l12(2, 2), bounds="all 2-byte texts, all query histories (q1; q2; q2)"),
        H("c12_text_len3", tier="quick", timeout=2700, unwindset=l12(3, 3), bounds="all 3-byte texts, all query histories (q1; q2; q2)"),
        H("c12_text_len4", tier="thorough", mem_gb=12, timeout=2700, unwindset=l12(4, 4), bounds="all 4-byte texts, all query histories (q1; q2; q2)"),
        H("c12_text_len5", tier="thorough", mem_gb=12, timeout=2700, unwindset=l12(5, 5), bounds="all 5-byte texts, all query histories (q1; q2; q2)"),
        H("c12_text_len6", tier="thorough", mem_gb=12, timeout=2700, unwindset=l12(6, 6), bounds="all 6-byte texts, all query histories (q1; q2; q2)"),
        H("c12_text_len8", tier="thorough", mem_gb=12, timeout=2700, unwindset=l12(8, 8), bounds="all 8-byte texts, all query histories (q1; q2; q2)"),
        H("c12_inverse_len3", tier="quick", timeout=2700, unwindset=l12(3, 3), bounds="all 3-byte texts: to_offset and round trip"),
        H("c12_inverse_len5", tier="thorough", mem_gb=12, timeout=2700, unwindset=l12(5, 5), bounds="all 5-byte texts: to_offset and round trip"),
        H("c12_inverse_len7", tier="thorough", mem_gb=12, timeout=2700, unwindset=l12(7, 7), bounds="all 7-byte texts: to_offset and round trip"),
        H("c12_skeleton_20", tier="quick", timeout=2700, unwindset=l12(46, 24), bounds="concrete 20-line text, all query pairs"),
        H("c12_skeleton_40", tier="quick", timeout=2700, unwindset=l12(76, 44), bounds="concrete 40-line text, all query pairs"),
        H("c12_witness_must_fail", tier="thorough", kind="witness", timeout=900, unwindset=l12(3, 3)),
    ],
)

PROPS["C17"] = dict(
    module="c17",
    bounds='n = 4 (5 for one thorough instance) arbitrary u32 positions (monotone with duplicates; zero sentinels for ends; non-monotone -> dense fallback) bounded by the concrete text length in {60,64,100,128} (including positions equal to the text length); start positions: one-step induction over lookup histories from ANY cursor state satisfying the representation invariant (seeded through the verif-hooks setter), any lookup index 0..=n+1, answer + invariant re-established; end positions: constructor invariant, every single lookup on n=4, every 2-lookup history from the fresh state on n=3',
    outside="n > 6; text lengths not listed; more than 256 distinct positions (second select sample); YamlIndex wrappers (thin, read not encoded)",
    assumptions=["select_in_word replaced by its loop-free contract (decided in C02); bits::scan_select replaced by its prefix-sum specification (decided in C01)",
                 "in the step harnesses the tables' private sampled select (ib_select1_with_state) is replaced by its specification; c17_ib_select_* decide the real one against it",
                 "the representation invariant written in the harness (inv) is what makes the induction sound; it is checked on the constructor's state"],
    harnesses=[
        H("c17_open_step_n4_tl100", tier="quick", timeout=1200, mem_gb=26, bounds="starts, n=4, text_len 100, positions < 100"),
        H("c17_open_step_n5_tl128", tier="thorough", timeout=1800, mem_gb=12, bounds="starts, n=5, text_len 128"),
        H("c17_open_step_n4_tl64", tier="quick", timeout=1200, mem_gb=26, bounds="starts, n=4, text_len 64, positions < 64"),
        H("c17_open_step_n4_tl100_eof", tier="quick", timeout=1200, mem_gb=26, bounds="starts, n=4, text_len 100, positions <= 100"),
        H("c17_open_step_n4_tl64_eof", tier="quick", timeout=1200, mem_gb=26, bounds="starts, n=4, text_len 64, positions <= 64"),
        H("c17_open_init_inv_n4", tier="quick", timeout=900, mem_gb=20, bounds="constructor state satisfies the invariant; compact iff monotone"),
        H("c17_end_init_inv_n4", tier="quick", timeout=900, mem_gb=20, bounds="constructor state satisfies the invariant (ends)"),
        H("c17_end1_n4_tl100", tier="quick", timeout=900, mem_gb=16, bounds="ends n=4: every single lookup from the fresh state"),
        H("c17_end2_n3_tl60", tier="quick", timeout=3000, mem_gb=20, bounds="ends n=3: every 2-lookup history from the fresh state"),
        H("c17_dense_fallback_n4", tier="quick", timeout=900, mem_gb=20, bounds="non-monotone n=4"),
    ],
)

PROPS["C31"] = dict(
    module="c31",
    bounds=("all word vectors of 0..=4 words; byte slices of 0..=24 bytes taken at every offset 0..8 of an 8-aligned buffer; "
            "from_parts round trips are decided under C07 (JsonIndex::from_parts) and C04 (BalancedParens::from_words)"),
    outside="vectors longer than 4 words (the casts are length-generic, no loop over contents); mmap feature; serde",
    assumptions=["CBMC's (object, offset) pointer model decides the alignment test of bytemuck::cast_slice"],
    harnesses=[
        H("c31_roundtrip_0", timeout=600, bounds="all [u64; 0]"),
        H("c31_roundtrip_1", timeout=600, bounds="all [u64; 1]"),
        H("c31_roundtrip_2", timeout=600, bounds="all [u64; 2]"),
        H("c31_roundtrip_4", timeout=600, bounds="all [u64; 4]"),
        H("c31_zero_copy_aligned", timeout=600, bounds="aligned start, every length 0..=24"),
        H("c31_vec_off0", timeout=600, bounds="copying decoder, slice at offset 0, 1-3 words (concrete count)"),
        H("c31_vec_off1", timeout=600, bounds="copying decoder, slice at offset 1, 1-3 words (concrete count)"),
        H("c31_vec_off2", timeout=600, bounds="copying decoder, slice at offset 2, 1-3 words (concrete count)"),
        H("c31_vec_off3", timeout=600, bounds="copying decoder, slice at offset 3, 1-3 words (concrete count)"),
        H("c31_vec_off4", timeout=600, bounds="copying decoder, slice at offset 4, 1-3 words (concrete count)"),
        H("c31_vec_off5", timeout=600, bounds="copying decoder, slice at offset 5, 1-3 words (concrete count)"),
        H("c31_vec_off6", timeout=600, bounds="copying decoder, slice at offset 6, 1-3 words (concrete count)"),
        H("c31_vec_off7", timeout=600, bounds="copying decoder, slice at offset 7, 1-3 words (concrete count)"),
        H("c31_vec_off0_empty", timeout=600, bounds="copying decoder, empty slice at offset 0"),
        H("c31_vec_off5_empty", timeout=600, bounds="copying decoder, empty slice at offset 5"),
        H("c31_zero_copy_off1", kind="finding", finding="C31-misaligned-zero-copy", finding_match=r"bytemuck", timeout=600, bounds="zero-copy decoders, slice at offset 1, every length 0..=16"),
        H("c31_zero_copy_off4", kind="finding", finding="C31-misaligned-zero-copy", finding_match=r"bytemuck", timeout=600, bounds="zero-copy decoders, slice at offset 4, every length 0..=16"),
        H("c31_zero_copy_off7", kind="finding", finding="C31-misaligned-zero-copy", finding_match=r"bytemuck", timeout=600, bounds="zero-copy decoders, slice at offset 7, every length 0..=16"),
        H("c31_badlen_off0", timeout=600, bounds="bad lengths, offset 0"),
        H("c31_badlen_off3", timeout=600, bounds="bad lengths, offset 3"),
        H("c31_witness_must_fail", kind="witness", tier="thorough", timeout=300),
    ],
)

def u13(n, main=None):
    """Loops whose stride is symbolic cannot be folded by CBMC, so each gets the tightest bound that still
    passes its unwinding assertion: `main` bounds the validators' main loops (iterations over the concrete
    filler are folded by symex; only the symbolic window costs), everything else is bounded by the length."""
    b = n + 2
    m = main if main is not None else b
    return {r"line_col|violated_rule|valid_up_to|check_result": b, r"line_and_column": b, r"validate_utf8_scalar": m, r"skip_ascii": n // 8 + 10,
            r"broadword.*accepts": m, r"load_block": 6, r"c13_": max(b, 24), r"validate_utf8_avx2": n // 32 + 2}


PROPS["C13"] = dict(
    module="c13",
    bounds='scalar and broadword validators: every byte string of length 0..=4 (quick), 5..=7 (thorough); broadword: 12-41-byte inputs with a symbolic window at the 8-byte word boundaries; AVX2 validator: every string of 33 and 66 bytes and symbolic windows at offsets 0, 24-30, 58-60 around the 32/64-byte chunk boundaries; error constructor on every buffer <= 26 bytes; encode/decode: every u32 and every <=4-byte string',
    outside="more than 8 symbolic bytes at once; windows at offsets not listed; aarch64",
    assumptions=["inside the validator harnesses the private error constructor err_at is replaced by a marker stub; the real one is decided by c13_err_at_*", "_mm256_max_epu8 and _mm256_testz_si256 replaced by models.rs; is_x86_feature_detected!(avx2) fixed or solver-chosen per harness"],
    harnesses=[
        H("c13_scalar_len0to3", tier="quick", timeout=600, unwindset=u13(3), bounds="all strings of 0..=3 bytes"),
        H("c13_scalar_len4", tier="quick", timeout=600, unwindset=u13(4), bounds="all 4-byte strings"),
        H("c13_scalar_len5", tier="thorough", mem_gb=12, timeout=900, unwindset=u13(5), bounds="all 5-byte strings"),
        H("c13_scalar_len6", tier="thorough", mem_gb=12, timeout=900, unwindset=u13(6), bounds="all 6-byte strings"),
        H("c13_scalar_len7", tier="thorough", mem_gb=12, timeout=1800, unwindset=u13(7), bounds="all 7-byte strings"),
        H("c13_continuation_offset_is_valid_prefix", tier="quick", kind="finding", finding="C13-continuation-offset",
          finding_match=r"e\.offset == valid_up_to", timeout=600, unwindset=u13(4), bounds="all 4-byte strings"),
        H("c13_broadword_win12_at4", tier="quick", timeout=900, unwindset=u13(12, 14), bounds="12 bytes, 6-byte window at 4 (8-byte word skip)"),
        H("c13_broadword_win41_at30", tier="thorough", mem_gb=12, timeout=900, unwindset=u13(41, 14), bounds="41 bytes, 6-byte window at 30 (32-byte block skip)"),
        H("c13_broadword_win36_at0", tier="thorough", mem_gb=12, timeout=900, unwindset=u13(36, 14), bounds="36 bytes, 5-byte window at 0"),
        H("c13_avx2_win33_at27", tier="quick", timeout=1800, unwindset=u13(33, 14), bounds="33 bytes, 6-byte window at 27 (crosses the chunk boundary)"),
        H("c13_avx2_win36_at28", tier="thorough", mem_gb=12, timeout=2700, unwindset=u13(36, 16), bounds="36 bytes, 8-byte window at 28"),
        H("c13_avx2_win36_at30", tier="quick", timeout=1800, unwindset=u13(36, 14), bounds="36 bytes, 6-byte window at 30"),
        H("c13_avx2_win34_at0", tier="thorough", mem_gb=12, timeout=1800, unwindset=u13(34, 14), bounds="34 bytes, 6-byte window at 0"),
        H("c13_avx2_win65_at60", tier="thorough", mem_gb=12, timeout=2700, unwindset=u13(65, 14), bounds="65 bytes, 5-byte window at 60 (second boundary)"),
        H("c13_avx2_win8_at2", tier="quick", timeout=900, unwindset=u13(8, 14), bounds="8 bytes (tail-only path), 6-byte window"),
        H("c13_avx2_win32_at24", tier="thorough", mem_gb=12, timeout=1800, unwindset=u13(32, 16), bounds="32 bytes exactly one chunk, 8-byte window at 24"),
        H("c13_avx2_win40_at20_w16", tier="thorough", mem_gb=12, timeout=2700, unwindset=u13(40, 16), bounds="40 bytes, 16-byte window across the chunk boundary"),
        H("c13_avx2_win66_at28", tier="quick", timeout=1800, unwindset=u13(66, 16), bounds="66 bytes, 8-byte window across the first chunk boundary, a full ASCII chunk after it"),
        H("c13_avx2_win98_at58", tier="thorough", mem_gb=12, timeout=2700, unwindset=u13(98, 16), bounds="98 bytes, 8-byte window across the second chunk boundary"),
        H("c13_avx2_full33", tier="thorough", mem_gb=12, timeout=2700, unwindset=u13(33, 16), bounds="ALL 33-byte strings (fully symbolic)"),
        H("c13_avx2_full66", tier="thorough", mem_gb=12, timeout=2700, unwindset=u13(66, 16), bounds="ALL 66-byte strings (fully symbolic)"),
        H("c13_dispatch_len4", tier="quick", timeout=900, unwindset=u13(4), bounds="validate_utf8 / validate_utf8_simd wrappers == scalar, all 4-byte strings, avx2 solver-chosen", replay="trace"),
        H("c13_err_at_len7", tier="quick", timeout=600, unwindset=u13(7), bounds="line/column of every offset, all 7-byte buffers"),
        H("c13_err_at_len17", tier="quick", timeout=900, unwindset=u13(17), bounds="all 17-byte buffers (two 8-byte words + tail)"),
        H("c13_err_at_len26", tier="thorough", mem_gb=12, timeout=1800, unwindset=u13(26), bounds="all 26-byte buffers"),
        H("c13_codepoint_roundtrip", tier="quick", timeout=600, bounds="every u32"),
        H("c13_decode_matches_table", tier="quick", timeout=600, bounds="every string of 0..=4 bytes"),
        H("c13_witness_must_fail", tier="thorough", kind="witness", timeout=600, unwindset=u13(4)),
    ],
)

U20 = {r"spec_words": 132, r"parser.*build_index": 132, r"toggle_spec": 66, r"pdep_u64": 66, r"select_in_word": 66,
       r"spec.*rank1|spec.*select1": 4, r"same_as_spec": 4}

PROPS["C20"] = dict(
    module="c20",
    bounds=("every text of exactly 5, 7, 63, 64, 65, 70 or 130 arbitrary bytes (one or two full 64-byte chunks + carry + tail) and every pairwise-distinct "
            "(delimiter, quote, record separator) byte triple; marker and newline words compared word for word with a byte-at-a-time definition for the "
            "scalar, SSE2, AVX2 and BMI2 engines and the dispatcher; toggle64 kernels for every (carry, 64-bit quote mask)"),
    outside="texts longer than 130 bytes (more chunks repeat the same carry step); aarch64 engines",
    assumptions=["_pdep_u64 replaced by models.rs; dispatcher probes solver-chosen"],
    harnesses=[
        H("c20_scalar_70", tier="quick", timeout=900, unwindset=U20, bounds="scalar builder, 70 bytes"),
        H("c20_scalar_5", tier="quick", timeout=300, unwindset=U20, bounds="scalar builder, 5 bytes"),
        H("c20_sse2_70", tier="quick", timeout=1800, unwindset=U20, bounds="SSE2, 70 bytes"),
        H("c20_avx2_70", tier="quick", timeout=1800, unwindset=U20, bounds="AVX2, 70 bytes"),
        H("c20_bmi2_70", tier="quick", timeout=1800, unwindset=U20, bounds="BMI2, 70 bytes"),
        H("c20_sse2_64", tier="thorough", mem_gb=12, timeout=1800, unwindset=U20, bounds="SSE2, 64 bytes"),
        H("c20_avx2_64", tier="thorough", mem_gb=12, timeout=1800, unwindset=U20, bounds="AVX2, 64 bytes"),
        H("c20_bmi2_64", tier="thorough", mem_gb=12, timeout=1800, unwindset=U20, bounds="BMI2, 64 bytes"),
        H("c20_sse2_63", tier="thorough", mem_gb=12, timeout=1800, unwindset=U20, bounds="SSE2, 63 bytes"),
        H("c20_avx2_65", tier="thorough", mem_gb=12, timeout=1800, unwindset=U20, bounds="AVX2, 65 bytes"),
        H("c20_bmi2_65", tier="thorough", mem_gb=12, timeout=1800, unwindset=U20, bounds="BMI2, 65 bytes"),
        H("c20_sse2_130", tier="thorough", mem_gb=12, timeout=2700, unwindset=U20, bounds="SSE2, 130 bytes"),
        H("c20_avx2_130", tier="thorough", mem_gb=12, timeout=2700, unwindset=U20, bounds="AVX2, 130 bytes"),
        H("c20_bmi2_130", tier="thorough", mem_gb=12, timeout=2700, unwindset=U20, bounds="BMI2, 130 bytes"),
        H("c20_avx2_7", tier="quick", timeout=900, unwindset=U20, bounds="AVX2, 7 bytes (tail only)"),
        H("c20_dispatch_70", tier="thorough", mem_gb=12, timeout=2700, unwindset=U20, bounds="dispatcher, 70 bytes, probes symbolic", replay="trace"),
        H("c20_empty", tier="quick", timeout=300, unwindset=U20, bounds="empty text, all engines"),
        H("c20_toggle64_scalar", tier="quick", timeout=600, unwindset=U20, bounds="all (carry, mask)"),
        H("c20_toggle64_bmi2", tier="quick", timeout=600, unwindset=U20, bounds="all (carry, mask), PDEP model"),
        H("c20_prefix_xor", tier="quick", timeout=300, bounds="all x:u64"),
        H("c20_witness_must_fail", tier="thorough", kind="witness", timeout=300),
    ],
)

def u21(n):
    """<= n bytes of text: at most n markers, so the index's own CTZ select loop needs n+1 iterations (checked by its unwinding assertion)."""
    return {r"select_in_word": n + 2, r"binary_search_by|partition_point": 4, r"DsvRow.*3get": n + 3, r"c21_|split|bytes_eq|ends_with": n + 4,
            r"build_index|build_rank": n + 2}

PROPS["C21"] = dict(
    module="c21",
    bounds='every text of 1..=3 arbitrary bytes (4 bytes in the thorough tier) and every pairwise-distinct (delimiter, quote, record separator) triple; every row index and column index 0..=len+1 through iteration, DsvRow::get and DsvRef::row; trailing-separator invariance for texts of 3 (thorough: 4) bytes',
    outside='texts longer than 4 bytes; Dsv (owned) wrapper and the SIMD-built index (C20 shows every engine builds the same index words)',
    assumptions=["index built by the scalar builder; in-word select of the DSV index is its own CTZ loop"],
    harnesses=[
        H("c21_rows_fields_len1", tier="quick", timeout=600, unwindset=u21(1), bounds="all 1-byte texts"),
        H("c21_rows_fields_len2", tier="quick", timeout=600, unwindset=u21(2), bounds="all 2-byte texts"),
        H("c21_rows_fields_len3", tier="quick", timeout=900, unwindset=u21(3), bounds="all 3-byte texts"),
        H("c21_rows_fields_len4", tier="thorough", mem_gb=12, timeout=1800, unwindset=u21(4), bounds="all 4-byte texts"),
        H("c21_trailing_delimiter_len2", tier="quick", kind="finding", finding="C21-trailing-empty-field", timeout=600, unwindset=u21(2),
          bounds="2-byte texts whose last byte is an unquoted delimiter"),
        H("c21_append_separator_len3", tier="quick", timeout=900, unwindset=u21(4), bounds="3-byte texts + separator"),
        H("c21_append_separator_len4", tier="thorough", mem_gb=12, timeout=1800, unwindset=u21(5), bounds="4-byte texts + separator"),
        H("c21_witness_must_fail", tier="thorough", kind="witness", timeout=600, unwindset=u21(3)),
    ],
)

U09 = {r"first_escape": 72, r"json_escape.*(avx2|sse2|scalar)": 34, r"Sink.*write_str": 14, r"decode_one": 5,
       r"c09_yq_span|c09_witness": 42, r"write_json_body": 42, r"find": 34}

def u09w(chars, maxwrite):
    d = dict(U09)
    d[r"write_json_body"] = chars + 2
    d[r"Sink.*write_str"] = maxwrite + 2
    d[r"Chars|chars|next_code_point"] = chars + 2
    # the scanner runs on at most maxwrite+few bytes here: chunk loops 1-3 iterations, scalar tail < 18
    d[r"json_escape.*(avx2|sse2|scalar)"] = 6 if maxwrite < 16 else 18
    d[r"find"] = 6 if maxwrite < 16 else 18
    return d


PROPS["C09"] = dict(
    module="c09",
    bounds='escape scanner: every buffer of 15, 16, 17, 31, 32, 33, 34, 40 and 70 bytes at the listed concrete start offsets, AVX2 and SSE2 paths; four writers: every Unicode scalar value, and for three of them every pair of Unicode scalar values (after a fixed ASCII character), output decoded by an RFC 8259 string-body decoder',
    outside="strings of more than 3 arbitrary characters at once; start offsets not listed; aarch64; the `scalar-yaml` build of the scanner",
    assumptions=["_mm256_subs_epu8/_mm_subs_epu8 replaced by models.rs; util::simd::escape::avx2_enabled fixed or solver-chosen per harness"],
    harnesses=[
        H("c09_scan_avx2_n40_s0", tier="quick", timeout=900, unwindset=U09, bounds="all buffers of that length, start as named"),
        H("c09_scan_avx2_n40_s1", tier="thorough", mem_gb=12, timeout=900, unwindset=U09, bounds="all buffers of that length, start as named"),
        H("c09_scan_avx2_n40_s7", tier="thorough", mem_gb=12, timeout=900, unwindset=U09, bounds="all buffers of that length, start as named"),
        H("c09_scan_avx2_n40_s8", tier="thorough", mem_gb=12, timeout=900, unwindset=U09, bounds="all buffers of that length, start as named"),
        H("c09_scan_avx2_n40_s9", tier="quick", timeout=900, unwindset=U09, bounds="all buffers of that length, start as named"),
        H("c09_scan_avx2_n40_s24", tier="thorough", mem_gb=12, timeout=900, unwindset=U09, bounds="all buffers of that length, start as named"),
        H("c09_scan_avx2_n40_s25", tier="quick", timeout=900, unwindset=U09, bounds="all buffers of that length, start as named"),
        H("c09_scan_avx2_n40_s39", tier="thorough", mem_gb=12, timeout=900, unwindset=U09, bounds="all buffers of that length, start as named"),
        H("c09_scan_avx2_n40_s40", tier="quick", timeout=900, unwindset=U09, bounds="all buffers of that length, start as named"),
        H("c09_scan_avx2_n40_s41", tier="thorough", mem_gb=12, timeout=900, unwindset=U09, bounds="all buffers of that length, start as named"),
        H("c09_scan_avx2_n33_s0", tier="quick", timeout=900, unwindset=U09, bounds="all buffers of that length, start as named"),
        H("c09_scan_avx2_n32_s0", tier="thorough", mem_gb=12, timeout=900, unwindset=U09, bounds="all buffers of that length, start as named"),
        H("c09_scan_avx2_n31_s0", tier="thorough", mem_gb=12, timeout=900, unwindset=U09, bounds="all buffers of that length, start as named"),
        H("c09_scan_avx2_n17_s0", tier="thorough", mem_gb=12, timeout=900, unwindset=U09, bounds="all buffers of that length, start as named"),
        H("c09_scan_avx2_n16_s0", tier="quick", timeout=900, unwindset=U09, bounds="all buffers of that length, start as named"),
        H("c09_scan_avx2_n15_s0", tier="thorough", mem_gb=12, timeout=900, unwindset=U09, bounds="all buffers of that length, start as named"),
        H("c09_scan_avx2_n70_s3", tier="thorough", mem_gb=12, timeout=900, unwindset=U09, bounds="all buffers of that length, start as named"),
        H("c09_scan_sse2_n40_s0", tier="thorough", mem_gb=12, timeout=900, unwindset=U09, bounds="all buffers of that length, start as named"),
        H("c09_scan_sse2_n40_s5", tier="quick", timeout=900, unwindset=U09, bounds="all buffers of that length, start as named"),
        H("c09_scan_sse2_n40_s24", tier="thorough", mem_gb=12, timeout=900, unwindset=U09, bounds="all buffers of that length, start as named"),
        H("c09_scan_sse2_n40_s25", tier="thorough", mem_gb=12, timeout=900, unwindset=U09, bounds="all buffers of that length, start as named"),
        H("c09_scan_sse2_n33_s0", tier="quick", timeout=900, unwindset=U09, bounds="all buffers of that length, start as named"),
        H("c09_scan_sse2_n17_s1", tier="thorough", mem_gb=12, timeout=900, unwindset=U09, bounds="all buffers of that length, start as named"),
        H("c09_scan_sse2_n16_s0", tier="thorough", mem_gb=12, timeout=900, unwindset=U09, bounds="all buffers of that length, start as named"),
        H("c09_scan_sse2_n15_s0", tier="quick", timeout=900, unwindset=U09, bounds="all buffers of that length, start as named"),
        H("c09_scan_any_n34_s1", tier="quick", timeout=900, unwindset=U09, bounds="all buffers of that length, start as named", replay="trace"),
        H("c09_writer_jq_1c", tier="quick", timeout=1800, unwindset=u09w(1, 6), bounds="every Unicode scalar value, jq convention", replay="trace"),
        H("c09_writer_jq_ascii_1c", tier="quick", timeout=1800, unwindset=u09w(1, 6), bounds="every Unicode scalar value, jq ASCII", replay="trace"),
        H("c09_writer_yq_1c", tier="quick", timeout=1800, unwindset=u09w(1, 6), bounds="every Unicode scalar value, yq convention", replay="trace"),
        H("c09_writer_yq_ascii_1c", tier="quick", timeout=1800, unwindset=u09w(1, 6), bounds="every Unicode scalar value, yq ASCII", replay="trace"),
        H("c09_writer_jq_2c", tier="quick", timeout=2700, unwindset=u09w(3, 6), bounds="all pairs of scalar values, jq convention", replay="trace"),
        H("c09_writer_jq_ascii_2c", tier="thorough", mem_gb=12, timeout=2700, unwindset=u09w(3, 6), bounds="all pairs of scalar values, jq ASCII", replay="trace"),
        H("c09_writer_yq_ascii_2c", tier="thorough", mem_gb=12, timeout=2700, unwindset=u09w(3, 6), bounds="all pairs of scalar values, yq ASCII", replay="trace"),
        H("c09_witness_must_fail", tier="thorough", kind="witness", timeout=600, unwindset=U09),
    ],
)

def u05(n):
    lin = n + 2
    return {r"spec_standard|spec_simple|spec_state|c05_": lin, r"build_semi_index_scalar|8standard16build_semi_index|6simple16build_semi_index": lin,
            r"pfsm_process_chunk": lin, r"process_chunk_(standard|simple)": min(n, 32) + 2, r"same_words": 5,
            r"build_semi_index_(standard|simple)_(avx2|sse2)": n // 16 + 3}


PROPS["C05"] = dict(
    module="c05",
    bounds=("PFSM tables: every (state, byte); scalar/PFSM/simple builders: every string of 4, 6, 8, 10 bytes; AVX2 engine: every string of 7, 32, 33, 34, 40, 65 bytes; "
            "SSE2 engine: every string of 16, 17, 33, 40 bytes; both encodings; dispatcher with the AVX2 probe solver-chosen; interest bits, BP bits, word counts and "
            "final state compared with an independent restatement of the reference machine"),
    outside="strings longer than 65 bytes (more chunks repeat the same carried-state step); aarch64 engines",
    assumptions=["_mm{,256}_min_epu8 and _mm{,256}_sub_epi8 replaced by models.rs (Kani cannot lower simd_select / reports a spurious simd_sub overflow)"],
    harnesses=[
        H("c05_pfsm_tables", tier="quick", timeout=300, bounds="all 4 x 256 table entries"),
        H("c05_short_len4", tier="quick", timeout=600, unwindset=u05(4), bounds="all 4-byte strings: scalar, PFSM, simple"),
        H("c05_short_len6", tier="quick", timeout=900, unwindset=u05(6), bounds="all 6-byte strings"),
        H("c05_short_len8", tier="thorough", mem_gb=12, timeout=1800, unwindset=u05(8), bounds="all 8-byte strings"),
        H("c05_short_len10", tier="thorough", mem_gb=12, timeout=2700, unwindset=u05(10), bounds="all 10-byte strings"),
        H("c05_avx2_std_33", tier="quick", timeout=1200, unwindset=u05(33), bounds="all strings of that length vs reference machine"),
        H("c05_avx2_std_34", tier="thorough", mem_gb=12, timeout=1200, unwindset=u05(34), bounds="all strings of that length vs reference machine"),
        H("c05_avx2_std_40", tier="thorough", mem_gb=12, timeout=1200, unwindset=u05(40), bounds="all strings of that length vs reference machine"),
        H("c05_avx2_std_32", tier="thorough", mem_gb=12, timeout=1200, unwindset=u05(32), bounds="all strings of that length vs reference machine"),
        H("c05_avx2_std_7", tier="quick", timeout=1200, unwindset=u05(7), bounds="all strings of that length vs reference machine"),
        H("c05_sse2_std_17", tier="quick", timeout=1200, unwindset=u05(17), bounds="all strings of that length vs reference machine"),
        H("c05_sse2_std_33", tier="thorough", mem_gb=12, timeout=1200, unwindset=u05(33), bounds="all strings of that length vs reference machine"),
        H("c05_sse2_std_40", tier="thorough", mem_gb=12, timeout=1200, unwindset=u05(40), bounds="all strings of that length vs reference machine"),
        H("c05_sse2_std_16", tier="thorough", mem_gb=12, timeout=1200, unwindset=u05(16), bounds="all strings of that length vs reference machine"),
        H("c05_avx2_simple_33", tier="quick", timeout=1200, unwindset=u05(33), bounds="all strings of that length vs reference machine"),
        H("c05_avx2_simple_40", tier="thorough", mem_gb=12, timeout=1200, unwindset=u05(40), bounds="all strings of that length vs reference machine"),
        H("c05_sse2_simple_17", tier="quick", timeout=1200, unwindset=u05(17), bounds="all strings of that length vs reference machine"),
        H("c05_sse2_simple_33", tier="thorough", mem_gb=12, timeout=1200, unwindset=u05(33), bounds="all strings of that length vs reference machine"),
        H("c05_witness_must_fail", tier="thorough", kind="witness", timeout=600, unwindset=u05(4)),
    ],
)

U07 = {r"select_in_word_ctz|pdep_u64|spec.*select_in_word": 66, r"spec.*rank1|spec.*select1|build_ib_rank": 14, r"ib_select1": 7}

PROPS["C07"] = dict(
    module="c07",
    bounds='interest-bit words: every content of 1, 2 and 4 words (hints also on 9 and 12 words in the thorough tier); every rank position, every k:usize (including k >= ones and k >= 2^32), every hint 0..=words+10; CTZ and PDEP in-word select; from_parts round trip on 2 words',
    outside=("node positions (text_position / cursor_at_offset) need JsonIndex::build plus BP navigation over symbolic text and are NOT decided here "
             "(the BP navigation they rest on is C04, the index bits C05); more than 12 interest-bit words"),
    assumptions=["_pdep_u64 replaced by models.rs", "BalancedParens part of the index built over a single zero word (not the subject)"],
    harnesses=[
        H("c07_ib_1w", tier="quick", timeout=600, unwindset=U07, bounds="1 word"),
        H("c07_ib_4w_pdep", tier="quick", timeout=900, unwindset=U07, bounds="4 words, PDEP model"),
        H("c07_hint_2w", tier="quick", timeout=1800, unwindset=U07, bounds="2 words, every k, every hint 0..=12"),
        H("c07_hint_4w", tier="quick", timeout=2700, unwindset=U07, bounds="4 words, every hint 0..=14"),
        H("c07_hint_9w", tier="thorough", mem_gb=12, timeout=2700, unwindset=U07, bounds="9 words (three galloping doublings), every hint 0..=19"),
        H("c07_hint_12w", tier="thorough", mem_gb=12, timeout=2700, unwindset=U07, bounds="12 words, every hint 0..=22"),
        H("c07_ib_empty", tier="quick", timeout=300, bounds="no words"),
        H("c07_from_serialized_parts_2w", tier="quick", timeout=900, unwindset=U07, bounds="2 words through the byte serialization"),
        H("c07_witness_must_fail", tier="thorough", kind="witness", timeout=600, unwindset=U07),
    ],
)


def c08(n, w, val, arr, obj):
    """Per-harness bounds for the recursive-descent validator: loops linear in the input get n+2, the element
    loops get the number of separators the window can hold, recursion is cut at the skeleton's (concrete)
    depth -- the window cannot contain `[` or `{`, so deeper frames are unreachable and CBMC's unwinding
    assertions prove that rather than assume it."""
    lin = n + 2
    us = {r"validate_string|skip_whitespace|skip_digits|position": lin, r"validate_unicode_escape": 6, r"validate_keyword": 7,
          r"validate_utf8_char": 5, r"validate_(object|array)_inner": w + 3, r"line_col|recognise|c08_": lin + 1}
    rec = {r"Validator14validate_value$": val}
    if arr:
        rec[r"Validator14validate_array$|Validator20validate_array_inner$"] = arr
    if obj:
        rec[r"Validator15validate_object$|Validator21validate_object_inner$"] = obj
    return dict(unwindset=us, recursion=rec)


PROPS["C08"] = dict(
    module="c08",
    bounds='concrete skeletons without containers (top level, "w", "\\\\uw", -w, 1w, whitespace-wrapped) around a fully symbolic window w of 3..=5 bytes that may hold any byte except \'[\' and \'{\'; accept <=> independent RFC 8259 push-down recogniser; on reject offset <= viable-prefix length and (line, column) of that offset; unpaired surrogate escapes are the recorded known finding and assumed away in the proofs',
    outside="windows containing '[' or '{' and every skeleton with an array or object around the window (written, do not finish under the caps, not registered); the nesting cap; more than 5 symbolic bytes",
    assumptions=["String::from_utf8_lossy (error-message construction) stubbed to an empty string",
                 "recursion of the validator is cut at the skeleton depth; CBMC's recursion unwinding assertions show deeper frames unreachable",
                 "container validators absent from a skeleton are replaced by a panicking stub, so their unreachability is an assertion"],
    harnesses=[
        H("c08_top_w3", tier="quick", timeout=1200, bounds="w=3 at top level", **c08(3, 3, 1, 0, 0)),
        H("c08_top_w4", tier="quick", timeout=1800, bounds="w=4 at top level", **c08(4, 4, 1, 0, 0)),
        H("c08_top_w5", tier="thorough", mem_gb=12, timeout=2700, bounds="w=5 at top level", **c08(5, 5, 1, 0, 0)),
        H("c08_str_w4", tier="quick", timeout=1800, bounds="\"w\", w=4", **c08(6, 4, 1, 0, 0)),
        H("c08_str_w5", tier="thorough", mem_gb=12, timeout=2700, bounds="\"w\", w=5", **c08(7, 5, 1, 0, 0)),
        H("c08_uesc_w4", tier="thorough", mem_gb=12, timeout=1800, bounds="\"\\\\uw\", w=4", **c08(8, 4, 1, 0, 0)),
        H("c08_unpaired_surrogate_escape", tier="quick", kind="finding", finding="C08-unpaired-surrogate-escape",
          finding_match=r"rfc8259_text_is_accepted", timeout=900, bounds="every text \"\\uXXXX\" with XXXX a surrogate code point", **c08(8, 4, 1, 0, 0)),
        H("c08_minus_w3", tier="quick", timeout=1200, bounds="-w, w=3", **c08(4, 3, 1, 0, 0)),
        H("c08_digit_w4", tier="thorough", mem_gb=12, timeout=1800, bounds="1w, w=4", **c08(5, 4, 1, 0, 0)),
        H("c08_ws_w3", tier="thorough", mem_gb=12, timeout=1800, bounds="whitespace / CR LF around w=3", **c08(8, 3, 1, 0, 0)),
    ],
)

U16 = {r"spec_find2|spec_spaces|spec_newline|spec_block_end|spec_anchor|c16_": 74,
       r"find_quote_or_escape|find_single_quote|count_leading_spaces|find_newline|find_block_scalar_end|parse_anchor_name": 74}

def u16be(n, start, simd):
    """tight per-loop bounds for the block-scalar-end kernels: text of n bytes, scan from `start`,
    simd in {"sse2", "avx2", "any"}; unwinding assertions stay on, so a bound that is too small is reported"""
    d = {r"spec_block_end|c16_": n + 2}
    rem = n - start
    if simd in ("sse2",):
        tail = 18
    elif simd == "avx2":
        tail = 34
    else:
        tail = n + 2
    d[r"find_block_scalar_end_scalar"] = min(tail, n + 2)
    d[r"find_block_scalar_end_sse2.*[.]3$"] = rem // 16 + 2
    d[r"find_block_scalar_end_sse2.*[.]2$"] = 18
    d[r"find_block_scalar_end_sse2.*[.]1$"] = 17
    d[r"find_block_scalar_end_sse2.*[.]0$"] = max(2, n - 16 + 1)
    d[r"find_block_scalar_end_avx2.*[.]3$"] = rem // 32 + 2
    d[r"find_block_scalar_end_avx2.*[.]2$"] = 34
    d[r"find_block_scalar_end_avx2.*[.]1$"] = 33
    d[r"find_block_scalar_end_avx2.*[.]0$"] = max(2, n - 32 + 1)
    return d


U16DEEP = {r"spec_block_end|c16_": 52, r"find_block_scalar_end_(sse2|avx2).*[.]0$": 36, r"find_block_scalar_end_(sse2|avx2).*[.][12]$": 34, r"find_block_scalar_end_(sse2|avx2).*[.]3$": 5, r"find_block_scalar_end_scalar": 50}

PROPS["C16"] = dict(
    replay_envs=[{}, {"SUCCINCTLY_SIMD": "sse2"}],
    module="c16",
    bounds=("kernel half only: every public yaml::simd kernel (find_quote_or_escape, find_single_quote, count_leading_spaces, find_newline, find_block_scalar_end, "
            "parse_anchor_name, classify_yaml_chars<HAS_CR>) on every buffer of 12..=70 bytes at the listed concrete start offsets, end / min_indent symbolic; AVX2 path, SSE2 "
            "path (avx2_enabled stubbed) and the scalar kernels (`scalar-yaml` build of the harness crate), all against one byte-at-a-time definition"),
    outside=("the whole-index half of the property (every table of the loaded YamlIndex and the JSON/YAML output identical across dispatch levels) needs the 7,000-line YAML "
             "parser and is NOT decided; start offsets not listed; buffers longer than 70 bytes"),
    assumptions=["yaml::simd::x86::avx2_enabled (OnceLock + env clamp) replaced by a fixed or solver-chosen boolean"],
    harnesses=[
        H("c16_quote_n40_s0_avx2", timeout=1800, unwindset=U16, tier="thorough", mem_gb=12, bounds="all buffers of that length at that start; other arguments symbolic"),
        H("c16_quote_n40_s3_avx2", timeout=1800, unwindset=U16, tier="quick", bounds="all buffers of that length at that start; other arguments symbolic"),
        H("c16_quote_n40_s9_avx2", timeout=1800, unwindset=U16, tier="thorough", mem_gb=12, bounds="all buffers of that length at that start; other arguments symbolic"),
        H("c16_quote_n40_s25_avx2", timeout=1800, unwindset=U16, tier="thorough", mem_gb=12, bounds="all buffers of that length at that start; other arguments symbolic"),
        H("c16_quote_n70_s1_avx2", timeout=1800, unwindset=U16, tier="thorough", mem_gb=12, bounds="all buffers of that length at that start; other arguments symbolic"),
        H("c16_quote_n40_s0_sse2", timeout=1800, unwindset=U16, tier="thorough", mem_gb=12, bounds="all buffers of that length at that start; other arguments symbolic"),
        H("c16_quote_n40_s7_sse2", timeout=1800, unwindset=U16, tier="quick", bounds="all buffers of that length at that start; other arguments symbolic"),
        H("c16_quote_n40_s25_sse2", timeout=1800, unwindset=U16, tier="thorough", mem_gb=12, bounds="all buffers of that length at that start; other arguments symbolic"),
        H("c16_quote_n17_s1_any", timeout=1800, unwindset=U16, tier="thorough", mem_gb=12, bounds="all buffers of that length at that start; other arguments symbolic", replay="trace"),
        H("c16_quote_n15_s0_any", timeout=1800, unwindset=U16, tier="quick", bounds="all buffers of that length at that start; other arguments symbolic", replay="trace"),
        H("c16_spaces_n40_s0_avx2", timeout=1800, unwindset=U16, tier="thorough", mem_gb=12, bounds="all buffers of that length at that start; other arguments symbolic"),
        H("c16_spaces_n40_s5_avx2", timeout=1800, unwindset=U16, tier="quick", bounds="all buffers of that length at that start; other arguments symbolic"),
        H("c16_spaces_n40_s24_avx2", timeout=1800, unwindset=U16, tier="thorough", mem_gb=12, bounds="all buffers of that length at that start; other arguments symbolic"),
        H("c16_spaces_n70_s2_avx2", timeout=1800, unwindset=U16, tier="thorough", mem_gb=12, bounds="all buffers of that length at that start; other arguments symbolic"),
        H("c16_spaces_n40_s0_sse2", timeout=1800, unwindset=U16, tier="thorough", mem_gb=12, bounds="all buffers of that length at that start; other arguments symbolic"),
        H("c16_spaces_n40_s9_sse2", timeout=1800, unwindset=U16, tier="quick", bounds="all buffers of that length at that start; other arguments symbolic"),
        H("c16_spaces_n33_s1_any", timeout=1800, unwindset=U16, tier="thorough", mem_gb=12, bounds="all buffers of that length at that start; other arguments symbolic", replay="trace"),
        H("c16_spaces_n15_s0_any", timeout=1800, unwindset=U16, tier="thorough", mem_gb=12, bounds="all buffers of that length at that start; other arguments symbolic", replay="trace"),
        H("c16_spaces_n16_s16_any", timeout=1800, unwindset=U16, tier="quick", bounds="all buffers of that length at that start; other arguments symbolic", replay="trace"),
        H("c16_block_end_n40_s0_avx2", timeout=1800, mem_gb=12, unwindset=u16be(40, 0, "avx2"), tier="thorough", bounds="all buffers of that length at that start; other arguments symbolic"),
        H("c16_block_end_n40_s0_sse2", timeout=1800, mem_gb=12, unwindset=u16be(40, 0, "sse2"), tier="thorough", bounds="all buffers of that length at that start; other arguments symbolic"),
        H("c16_block_end_indent_sse2", timeout=2700, mem_gb=16, unwindset=u16be(50, 0, "sse2"), tier="quick", bounds="indentation sweep: 50-byte text 'x\\n' + S spaces + arbitrary byte + filler + short last line, S,min_indent in 0..=26"),
        H("c16_block_end_n34_s2_sse2", timeout=1800, mem_gb=16, unwindset=u16be(34, 2, "sse2"), tier="quick", bounds="all buffers of that length at that start; other arguments symbolic"),
        H("c16_block_end_n20_s0_any", timeout=1800, mem_gb=16, unwindset=u16be(20, 0, "any"), tier="quick", bounds="all buffers of that length at that start; other arguments symbolic", replay="trace"),
        H("c16_block_end_n12_s12_any", timeout=1800, mem_gb=16, unwindset=u16be(12, 12, "any"), tier="quick", bounds="all buffers of that length at that start; other arguments symbolic", replay="trace"),
        H("c16_anchor_n40_s0_avx2", timeout=1800, unwindset=U16, tier="thorough", mem_gb=12, bounds="all buffers of that length at that start; other arguments symbolic"),
        H("c16_anchor_n40_s1_avx2", timeout=1800, unwindset=U16, tier="quick", bounds="all buffers of that length at that start; other arguments symbolic"),
        H("c16_anchor_n70_s2_avx2", timeout=1800, unwindset=U16, tier="thorough", mem_gb=12, bounds="all buffers of that length at that start; other arguments symbolic"),
        H("c16_anchor_n40_s0_sse2", timeout=1800, unwindset=U16, tier="quick", bounds="all buffers of that length at that start; other arguments symbolic"),
        H("c16_classify_n40_o0_cr_any", timeout=1800, unwindset=U16, tier="thorough", mem_gb=12, bounds="all buffers of that length at that start; other arguments symbolic", replay="trace"),
        H("c16_classify_n40_o8_nocr_any", timeout=1800, unwindset=U16, tier="thorough", mem_gb=12, bounds="all buffers of that length at that start; other arguments symbolic", replay="trace"),
        H("c16_classify_n48_o9_cr_any", timeout=1800, unwindset=U16, tier="quick", bounds="all buffers of that length at that start; other arguments symbolic", replay="trace"),
        H("c16_classify_n40_o25_cr_any", timeout=1800, unwindset=U16, tier="quick", bounds="all buffers of that length at that start; other arguments symbolic", replay="trace"),
        H("c16_quote_n40_s3_avx2", fs="scalar-yaml", timeout=1800, unwindset=U16, tier="quick", bounds="scalar-yaml build: pure scalar kernel, same harness"),
        H("c16_spaces_n40_s5_avx2", fs="scalar-yaml", timeout=1800, unwindset=U16, tier="quick", bounds="scalar-yaml build: pure scalar kernel, same harness"),
        H("c16_block_end_n20_s0_any", fs="scalar-yaml", timeout=1800, mem_gb=16, unwindset=u16be(20, 0, "any"), tier="quick", bounds="scalar-yaml build: pure scalar kernel, same harness"),
        H("c16_anchor_n40_s1_avx2", fs="scalar-yaml", timeout=1800, unwindset=U16, tier="quick", bounds="scalar-yaml build: pure scalar kernel, same harness"),
    ],
)

def u32_(n):
    lin = n + 3
    return {r"select_in_word_ctz": 66, r"structurals|ordinal_of|matching_close|outside_strings|value_end|starts_value|recognise|c32_": lin,
            r"find_string_end|find_number_end": lin, r"build_bp_index|build_l[012]_index": 2, r"find_close_from": 3,
            r"find_close_in_word_fast|word_min_excess|word_max_excess_rev": 10, r"process_chunk_simple": lin,
            r"build_semi_index_simple_(sse2|avx2)": 3, r"ib_rank1": 3, r"scan_select|scan_scalar": 3, r"structural_count|fold": 3}


PROPS["C32"] = dict(
    module="c32",
    bounds=("every valid JSON document (accepted by the independent RFC 8259 recogniser, nesting <= 4) of exactly 2, 4, 5, 6, 7, 8 bytes; every ordinal k and every "
            "position p up to len+1: structural_pos / structural_count / structural_index / find_close / skip_value"),
    outside="documents longer than 8 bytes; the AVX2 simple builder inside SimpleJsonIndex::build (SSE2 path taken; C05 decides builder equality)",
    assumptions=["is_x86_feature_detected!(avx2) = false (SSE2 builder), CTZ in-word select", "validity of the input is the harness recogniser's Accept (assumed)"],
    harnesses=[
        H("c32_structural_len2", tier="quick", timeout=1800, unwindset=u32_(2), bounds="all valid 2-byte documents: structural queries at every position"),
        H("c32_structural_len4", tier="quick", timeout=1800, unwindset=u32_(4), bounds="all valid 4-byte documents: structural queries at every position"),
        H("c32_structural_len6", tier="thorough", mem_gb=12, timeout=1800, unwindset=u32_(6), bounds="all valid 6-byte documents: structural queries at every position"),
        H("c32_structural_len8", tier="thorough", mem_gb=12, timeout=1800, unwindset=u32_(8), bounds="all valid 8-byte documents: structural queries at every position"),
        H("c32_close_len4", tier="quick", timeout=1800, unwindset=u32_(4), bounds="all valid 4-byte documents: close queries at every position"),
        H("c32_close_len6", tier="thorough", mem_gb=12, timeout=1800, unwindset=u32_(6), bounds="all valid 6-byte documents: close queries at every position"),
        H("c32_skip_len4", tier="quick", timeout=1800, unwindset=u32_(4), bounds="all valid 4-byte documents: skip queries at every position"),
        H("c32_skip_len6", tier="thorough", mem_gb=12, timeout=1800, unwindset=u32_(6), bounds="all valid 6-byte documents: skip queries at every position"),
        H("c32_witness_must_fail", tier="thorough", kind="witness", timeout=1800, unwindset=u32_(4)),
    ],
)

U04 = {r"d_find_close|d_find_open|d_enclose|d_select0|c04_": 134, r"select_in_word_ctz|spec.*select_in_word": 66,
       r"spec.*rank1|spec.*select1|masked": 5, r"find_unmatched_close_in_word": 66,
       r"2bp10find_close(Cs\w+)?[.]0$|2bp7enclose(Cs\w+)?[.][01]$|2bp9find_open(Cs\w+)?[.][01]$": 66,
       r"2bp10find_close(Cs\w+)?[.]1$|2bp7enclose(Cs\w+)?[.]2$|2bp9find_open(Cs\w+)?[.]2$": 3, r"build_bp_index|build_l[012]_index": 3,
       r"find_close_from": 12, r"find_close_in_word_fast|word_min_excess|word_max_excess_rev": 10, r"BalancedParens.*7select0": 9}

U04W1 = dict(U04)
U04W1.update({r"d_find_close|d_find_open|d_enclose|d_select0|c04_": 68, r"build_bp_index|build_l[012]_index": 2})

PROPS["C04"] = dict(
    module="c04",
    bounds='BalancedParens (owned) on 1 arbitrary word, len 40: find_close; rank1/rank0/excess/depth/first_child/select0/is_open/is_close, every position p and rank k, against left-to-right excess scans; free find_close on 2 arbitrary storage words with len 63 (stray bits and a whole surplus word past len), every p <= 131; in-word kernels are C02',
    outside='everything beyond one word of BalancedParens: find_open/enclose/next_sibling/subtree_size on the index, borrowed storage, WithSelect/WithCsPoppy, the L1 (2048-bit) and L2 (65,536-bit) block paths, depth > 32,767, the SSE4.1 builders of the `simd` build; free find_open/enclose on 2 words. Harnesses for these are written (harness/src/c04.rs) but do not finish under the caps and are not registered',
    assumptions=["BMI2 probe solver-chosen, AVX2 block popcount modelled in the select harnesses"],
    harnesses=[
        H("c04_free_close_len63", tier="quick", timeout=1800, mem_gb=12, unwindset=U04, bounds="free find_close on 2 arbitrary storage words with len 63 (stray bits and a whole surplus word past len), every p <= 131"),
        H("c04_w1_close_len40", tier="quick", timeout=1800, unwindset=U04W1, bounds="BalancedParens on 1 arbitrary word, len 40: find_close"),
        H("c04_w1_rank_len40", tier="quick", timeout=1800, unwindset=U04W1, bounds="1 word, len 40: rank/excess/depth/first_child/select0"),
    ],
)

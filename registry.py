"""Harness registry: which Kani harnesses decide which property, in which tier.

Fields per harness:
  name      function name in harness/src/<module>.rs
  tier      "quick" (default; also run in thorough) or "thorough"
  fs        feature set of the succinctly build: default | simd | portable-popcount | scalar-yaml
  kind      proof (default) | witness (deliberately wrong, must be refuted) | finding (known finding still present)
  timeout   seconds (quick tier cap); timeout_thorough optional
  bounds    human-readable bound of this solver query (goes into the evidence)
  replay    playback (default) | trace (counterexample depends on a forced non-host dispatch path)
"""


def H(name, **kw):
    d = dict(name=name)
    d.update(kw)
    return d


PROPS = {}

PROPS["C02"] = dict(
    module="c02",
    bounds="every u64 word, every u32 k / p (full width); every [u64; 8] block; every [u8; 64]",
    outside="aarch64 NEON/SVE2 kernels; AVX-512 popcount path of the `simd` build (see C01 simd build)",
    assumptions=["_pdep_u64, _mm256_shuffle_epi8, _mm256_sad_epu8 replaced by models.rs"],
    harnesses=[
        H("c02_select_ctz", timeout=900, bounds="all x:u64, all k:u32, unwind 66"),
        H("c02_select_pdep", timeout=600, bounds="all x:u64, all k:u32; PDEP model"),
        H("c02_select_broadword", timeout=900, bounds="all x:u64, all k:u32"),
        H("c02_select_dispatch", timeout=900, bounds="all x, k; has_fast_bmi2 solver-chosen", replay="trace"),
        H("c02_select_in_byte", timeout=120, bounds="all bytes, all k:u32"),
        H("c02_popcount_word", timeout=300, bounds="all x:u64"),
        H("c02_popcount_512", timeout=600, bounds="all [u8; 64]"),
        H("c02_block_popcount_portable", timeout=600, bounds="all [u64; 8]"),
        H("c02_block_popcount_avx2", timeout=600, bounds="all [u64; 8], lane-order byte-wise spec"),
        H("c02_block_popcount_avx2_oneword", timeout=600, bounds="one arbitrary word at arbitrary position, rest zero"),
        H("c02_find_unmatched_close_in_word", timeout=600, bounds="all x:u64"),
        H("c02_find_close_in_word", timeout=900, bounds="all x:u64, all p:u32"),
        H("c02_witness_must_fail", kind="witness", tier="thorough", timeout=300, bounds="vacuity witness"),
    ],
)

PROPS["C01"] = dict(
    module="c01",
    bounds=("rank directory: all contents of 9/17 words; select index: all contents of 1-3 words, rates 1..=4096 in ranges; "
            "scan_select: all contents of 9/19/27 words from concrete start words {0,1,2,3,11}, every remaining count; "
            "whole BitVec: all contents of 2 words + 1 surplus word (stray bits arbitrary), lengths {0,1,63,64,65,100,128}, "
            "sample rates {1,2,3,64,256,4096}, every query argument 0..=200; dispatch (BMI2/AVX2) solver-chosen"),
    outside=("vectors longer than 27 words in one piece (covered compositionally only), L0 superblocks (2^32 bits), serde, "
             "`simd`/`portable-popcount` builds of the whole BitVec (popcount kernels themselves are in C02), lengths and rates not listed"),
    assumptions=["has_fast_bmi2 / is_x86_feature_detected!(avx2) are solver-chosen booleans",
                 "_pdep_u64, _mm256_shuffle_epi8, _mm256_sad_epu8 replaced by models.rs"],
    harnesses=[
        H("c01_rankdir_9", timeout=300, bounds="all [u64; 9]"),
        H("c01_rankdir_17", timeout=900, tier="thorough", bounds="all [u64; 17]"),
        H("c01_selidx_2w_rate8up", timeout=900, bounds="all [u64; 2], rate 8..=4096 symbolic, all k"),
        H("c01_selidx_1w_rate1to7", timeout=900, bounds="all [u64; 1], rate 1..=7 symbolic, all k"),
        H("c01_selidx_3w_rate32up", timeout=900, tier="thorough", bounds="all [u64; 3], rate 32..=4096 symbolic"),
        H("c01_scan_19_s0_portable", timeout=900, bounds="19 words, start 0, portable block popcount"),
        H("c01_scan_19_s0_avx2", timeout=900, bounds="19 words, start 0, AVX2 block popcount (modelled)"),
        H("c01_scan_19_s2_any", timeout=900, tier="thorough", bounds="19 words, start 2, dispatch symbolic", replay="trace"),
        H("c01_scan_19_s3_portable", timeout=900, tier="thorough", bounds="19 words, start 3"),
        H("c01_scan_19_s11_any", timeout=900, bounds="19 words, start 11 (tail only), dispatch symbolic", replay="trace"),
        H("c01_scan_27_s0_portable", timeout=1800, tier="thorough", bounds="27 words, start 0: two blocks"),
        H("c01_scan_27_s1_avx2", timeout=1800, tier="thorough", bounds="27 words, start 1: two AVX2 blocks + tail"),
        H("c01_scan_9_s0_any", timeout=600, bounds="9 words, start 0 (prologue + 1-word tail)", replay="trace"),
        H("c01_scan_start_out_of_range", timeout=120, bounds="all start >= len"),
        H("c01_popcount_words_9", timeout=300, bounds="all [u64; 9], every prefix length"),
        H("c01_bv_rank_len100_rate256", timeout=900, bounds="2+1 words, len 100, rate 256, all i <= 200", replay="trace"),
        H("c01_bv_rank_len128_rate64", timeout=900, tier="thorough", bounds="len 128, rate 64", replay="trace"),
        H("c01_bv_rank_len65_rate4096", timeout=900, bounds="len 65, rate 4096", replay="trace"),
        H("c01_bv_select_len100_rate256", timeout=900, bounds="len 100, rate 256 (default), all k <= 200", replay="trace"),
        H("c01_bv_select_len100_rate1", timeout=1800, tier="thorough", bounds="len 100, rate 1", replay="trace"),
        H("c01_bv_select_len128_rate3", timeout=1800, tier="thorough", bounds="len 128, rate 3", replay="trace"),
        H("c01_bv_select_len65_rate64", timeout=900, bounds="len 65, rate 64", replay="trace"),
        H("c01_bv_select_len64_rate2", timeout=1800, tier="thorough", bounds="len 64, rate 2", replay="trace"),
        H("c01_bv_select_len63_rate4096", timeout=900, tier="thorough", bounds="len 63, rate 4096", replay="trace"),
        H("c01_bv_len0_len1", timeout=600, bounds="len 0 and len 1 over arbitrary words, rate symbolic", replay="trace"),
        H("c01_witness_must_fail", kind="witness", tier="thorough", timeout=300, bounds="vacuity witness"),
    ],
)

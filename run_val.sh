#!/bin/bash
# development aid: validate thorough-only harnesses.  usage: run_val.sh <cap_s> <mem_each> <budget> <jobs> ID...
cap=$1; each=$2; mem=$3; jobs=$4; shift 4
cd /verif
for id in "$@"; do
  VERIF_THOROUGH_ONLY=1 VERIF_CAP=$cap VERIF_MEM_EACH=$each VERIF_MEM_GB=$mem ./check $id --tier thorough --jobs $jobs > .cache/val_$id.out 2>&1
  echo "exit=$?" >> .cache/val_$id.out
done

#!/bin/bash
# Applies each confirmed seeded change to /repo (git apply), runs the property's registered check,
# and undoes it (git checkout -- .). Writes seeded/<ID>/detection.txt
cd /verif
for id in "$@"; do
  out=seeded/$id/detection.txt; : > $out
  if ! git -C /repo apply --check /verif/seeded/$id/patch.diff 2>>$out; then echo "patch does not apply" >> $out; continue; fi
  git -C /repo apply /verif/seeded/$id/patch.diff
  echo "== ./check $id --tier quick (change applied to /repo)" >> $out
  ./check $id --tier quick --jobs 10 > /tmp/eval_$id.log 2>&1; rc=$?
  echo "exit=$rc" >> $out
  grep -E "^VIOLATION|^  harness|^KNOWN-FINDING|^INCONCLUSIVE|tier=" /tmp/eval_$id.log | cut -c1-300 >> $out
  if [ "$id" = "C03" ]; then
    echo "== ./check C03 --tier thorough --only skeleton300_seek" >> $out
    ./check C03 --tier thorough --only "skeleton300_seek" --jobs 2 > /tmp/eval_${id}_t.log 2>&1; echo "exit=$?" >> $out
    grep -E "^VIOLATION|^  harness|^INCONCLUSIVE|tier=" /tmp/eval_${id}_t.log | cut -c1-300 >> $out
  fi
  git -C /repo checkout -- .
  git -C /repo status --short >> $out
done

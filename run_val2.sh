#!/bin/bash
cd /verif
VERIF_THOROUGH_ONLY=1 VERIF_CAP=1500 VERIF_MEM_EACH=20 VERIF_MEM_GB=20 ./check C16 --tier thorough --only "block_end_n40_s0_(sse2|avx2)" --jobs 1 > .cache/val2_C16.out 2>&1 &
VERIF_THOROUGH_ONLY=1 VERIF_CAP=1500 VERIF_MEM_EACH=20 VERIF_MEM_GB=20 ./check C13 --tier thorough --only "scalar_len7" --jobs 1 > .cache/val2_C13.out 2>&1 &
VERIF_THOROUGH_ONLY=1 VERIF_CAP=1500 VERIF_MEM_EACH=20 VERIF_MEM_GB=20 ./check C21 --tier thorough --only "rows_fields_len4|append_separator_len4" --jobs 1 > .cache/val2_C21.out 2>&1 &
wait

#!/bin/bash
cd /verif
for id in "$@"; do
  VERIF_CAP=600 VERIF_MEM_EACH=10 VERIF_MEM_GB=12 ./check $id --tier thorough --only witness --jobs 1 > .cache/valw_$id.out 2>&1
  echo "exit=$?" >> .cache/valw_$id.out
done

#!/bin/bash
# usage: run_chain.sh <tier> <mem_gb_budget> <jobs> ID...   -> logs in .cache/chain_<tier>_<ID>.out
tier=$1; mem=$2; jobs=$3; shift 3
cd /verif
for id in "$@"; do
  VERIF_MEM_GB=$mem ./check $id --tier $tier --jobs $jobs > .cache/chain_${tier}_$id.out 2>&1
  echo "exit=$?" >> .cache/chain_${tier}_$id.out
done

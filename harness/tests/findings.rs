//! Native demonstrations of the recorded findings against the real crate
//! (run manually: `cargo test --test findings`). Each test shows the failing
//! input through the public API.
use succinctly::binary;

fn misaligned(buf: &[u64]) -> &[u8] {
    let all = binary::words_to_bytes(buf);
    &all[1..17] // 16 bytes starting one byte into an 8-aligned buffer
}

/// fixed (C31): the copying decoder used to panic on a misaligned slice.
#[test]
fn c31_vec_decoder_accepts_misaligned_slice() {
    let buf = [0x0807060504030201u64, 0x100f0e0d0c0b0a09, 0x1817161514131211];
    let s = misaligned(&buf);
    let v = binary::bytes_to_words_vec(s);
    assert_eq!(v.len(), 2);
    assert_eq!(v[0], u64::from_ne_bytes(s[0..8].try_into().unwrap()));
    assert_eq!(v[1], u64::from_ne_bytes(s[8..16].try_into().unwrap()));
}

/// open (C31): the zero-copy decoders panic inside bytemuck::cast_slice when
/// the slice address is not 8-aligned, although its length is a multiple of 8.
#[test]
fn c31_zero_copy_decoders_panic_on_misaligned_slice() {
    let buf = [1u64, 2, 3];
    let r1 = std::panic::catch_unwind(|| binary::try_bytes_to_words(misaligned(&buf)).map(|w| w.len()));
    let r2 = std::panic::catch_unwind(|| binary::bytes_to_words(misaligned(&buf)).len());
    assert!(r1.is_err(), "try_bytes_to_words no longer panics: finding is stale");
    assert!(r2.is_err(), "bytes_to_words no longer panics: finding is stale");
}

/// open (C13): for an ill-formed sequence whose lead byte is acceptable but a
/// later byte is not a continuation byte, the reported offset is the offending
/// byte, not the length of the longest valid prefix (std's valid_up_to).
#[test]
fn c13_continuation_error_offset_is_not_valid_up_to() {
    use succinctly::text::utf8::{validate_utf8, Utf8ErrorKind};
    let input = [b'@', 0xC2, b'A', b'!'];
    let e = validate_utf8(&input).unwrap_err();
    let valid_up_to = std::str::from_utf8(&input).unwrap_err().valid_up_to();
    assert_eq!(valid_up_to, 1);
    assert_eq!(e.kind, Utf8ErrorKind::InvalidContinuationByte);
    assert_eq!(e.offset, 2, "offset now equals valid_up_to?");
    assert_ne!(e.offset, valid_up_to, "finding is stale");
}

/// C17: a node whose start position equals the text length is lost by the
/// compact start-position table when the text length is a multiple of 64
/// (the interest-bit vector has no bit for position == text_len).
#[test]
fn c17_open_position_at_text_len_multiple_of_64() {
    use succinctly::verif_hooks::OpenPositions;
    let op = OpenPositions::build(&[3, 64], 64);
    assert!(op.is_compact());
    assert_eq!(op.get(0), Some(3));
    assert_eq!(op.get(1), Some(64), "position == text_len (64) must be returned");
    // text_len 65 has room for bit 64
    let op = OpenPositions::build(&[3, 64], 65);
    assert_eq!(op.get(1), Some(64));
}

/// Same defect through the public YAML API: a 64-byte document whose last node
/// (an empty value) starts at offset 64.
#[test]
fn c17_yaml_node_at_end_of_64_byte_text() {
    use succinctly::yaml::YamlIndex;
    let mut doc = String::new();
    doc.push_str("a: 1\n#");
    doc.push_str(&"x".repeat(55));
    doc.push_str("\nk:");
    assert_eq!(doc.len(), 64, "{doc:?}");
    let idx = YamlIndex::build(doc.as_bytes()).unwrap();
    let n = idx.open_positions().len();
    let mut seen_64 = false;
    for i in 0..n {
        let p = idx.open_positions().get(i);
        assert!(p.is_some(), "open {i} of {n} lost its position");
        if p == Some(64) {
            seen_64 = true;
        }
    }
    eprintln!("n={n} seen_64={seen_64}");
}

/// open (C21): a text whose last byte is an unquoted delimiter loses the trailing
/// empty field of its last row; with a final record separator the field is there.
#[test]
fn c21_trailing_delimiter_loses_empty_field() {
    use succinctly::dsv::Dsv;
    let with_nl = Dsv::parse(b"a,\n");
    let f: Vec<Vec<u8>> = with_nl.rows().next().unwrap().fields().map(|x| x.to_vec()).collect();
    assert_eq!(f, vec![b"a".to_vec(), b"".to_vec()]);
    let without = Dsv::parse(b"a,");
    let g: Vec<Vec<u8>> = without.rows().next().unwrap().fields().map(|x| x.to_vec()).collect();
    assert_eq!(g, vec![b"a".to_vec()], "finding is stale: the trailing empty field is now returned");
    assert_eq!(without.row(0).unwrap().get(1), None, "finding is stale");
}

/// fixed (C07): ib_select1 / ib_select1_from truncated k to u32, so k >= 2^32
/// selected the (k mod 2^32)-th interest bit instead of returning None.
#[test]
fn c07_select_rank_beyond_u32_is_none() {
    use succinctly::json::JsonIndex;
    let idx = JsonIndex::build(br#"{"a":[1,2,3],"b":"x"}"#);
    let k = (1usize << 32) + 1;
    assert!(idx.ib_select1(1).is_some());
    assert_eq!(idx.ib_select1(k), None);
    assert_eq!(idx.ib_select1_from(k, 0), None);
}

/// C04, fixed (c573939): the free `find_close` looked at a storage word that starts past
/// `len` before its end-of-scan guard and panicked (debug: subtract with overflow;
/// release: index out of bounds in `word_min_excess_i32`). After the fix the surplus
/// word is never examined.
#[test]
fn c04_find_close_ignores_surplus_words() {
    use succinctly::bp::find_close;
    // 63 valid bits, all opens; one surplus word after them
    assert_eq!(find_close(&[u64::MAX >> 1, 0u64], 63, 0), None);
    assert_eq!(find_close(&[u64::MAX >> 1, u64::MAX], 63, 5), None);
    // a match inside the valid bits is unaffected by the surplus word
    assert_eq!(find_close(&[0b01u64, u64::MAX], 2, 0), Some(1));
}

/// C08, open: RFC 8259's grammar admits any `\uXXXX`; the strict validator rejects a
/// surrogate escape that is not part of a pair (deliberate strictness, recorded).
#[test]
fn c08_unpaired_surrogate_escape_is_rejected() {
    use succinctly::json::validate::validate;
    assert!(validate(b"\"\\uDCFD\"").is_err());
    assert!(validate(b"\"\\uD800\"").is_err());
    // a proper pair and a non-surrogate escape are accepted
    assert!(validate(b"\"\\uD83D\\uDE00\"").is_ok());
    assert!(validate(b"\"\\u00e9\"").is_ok());
}

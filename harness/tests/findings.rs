//! Native demonstrations of the recorded findings against the real crate
//! (run manually: `cargo test --test findings`). Each test shows the failing
//! input through the public API.
use succinctly::binary;

fn misaligned(buf: &[u64]) -> &[u8] {
    let all = binary::words_to_bytes(buf);
    &all[1..17] // 16 bytes starting one byte into an 8-aligned buffer
}

/// fixed (C31): the copying decoder used to panic on a misaligned slice.
#[test]
fn c31_vec_decoder_accepts_misaligned_slice() {
    let buf = [0x0807060504030201u64, 0x100f0e0d0c0b0a09, 0x1817161514131211];
    let s = misaligned(&buf);
    let v = binary::bytes_to_words_vec(s);
    assert_eq!(v.len(), 2);
    assert_eq!(v[0], u64::from_ne_bytes(s[0..8].try_into().unwrap()));
    assert_eq!(v[1], u64::from_ne_bytes(s[8..16].try_into().unwrap()));
}

/// open (C31): the zero-copy decoders panic inside bytemuck::cast_slice when
/// the slice address is not 8-aligned, although its length is a multiple of 8.
#[test]
fn c31_zero_copy_decoders_panic_on_misaligned_slice() {
    let buf = [1u64, 2, 3];
    let r1 = std::panic::catch_unwind(|| binary::try_bytes_to_words(misaligned(&buf)).map(|w| w.len()));
    let r2 = std::panic::catch_unwind(|| binary::bytes_to_words(misaligned(&buf)).len());
    assert!(r1.is_err(), "try_bytes_to_words no longer panics: finding is stale");
    assert!(r2.is_err(), "bytes_to_words no longer panics: finding is stale");
}

/// open (C13): for an ill-formed sequence whose lead byte is acceptable but a
/// later byte is not a continuation byte, the reported offset is the offending
/// byte, not the length of the longest valid prefix (std's valid_up_to).
#[test]
fn c13_continuation_error_offset_is_not_valid_up_to() {
    use succinctly::text::utf8::{validate_utf8, Utf8ErrorKind};
    let input = [b'@', 0xC2, b'A', b'!'];
    let e = validate_utf8(&input).unwrap_err();
    let valid_up_to = std::str::from_utf8(&input).unwrap_err().valid_up_to();
    assert_eq!(valid_up_to, 1);
    assert_eq!(e.kind, Utf8ErrorKind::InvalidContinuationByte);
    assert_eq!(e.offset, 2, "offset now equals valid_up_to?");
    assert_ne!(e.offset, valid_up_to, "finding is stale");
}

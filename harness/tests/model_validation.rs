//! Native validation of the intrinsic models against the real instructions of
//! this CPU. Validates the encoder; decides no property.
#![allow(unused)]
use core::arch::x86_64::*;
use succinctly_verif::models as m;

struct Rng(u64);
impl Rng {
    fn next(&mut self) -> u64 {
        // splitmix64
        self.0 = self.0.wrapping_add(0x9E3779B97F4A7C15);
        let mut z = self.0;
        z = (z ^ (z >> 30)).wrapping_mul(0xBF58476D1CE4E5B9);
        z = (z ^ (z >> 27)).wrapping_mul(0x94D049BB133111EB);
        z ^ (z >> 31)
    }
    fn v256(&mut self) -> __m256i {
        let a = [self.next(), self.next(), self.next(), self.next()];
        unsafe { core::mem::transmute(a) }
    }
    fn v128(&mut self) -> __m128i {
        let a = [self.next(), self.next()];
        unsafe { core::mem::transmute(a) }
    }
}
fn seed() -> u64 {
    std::env::var("VERIF_SEED").ok().and_then(|s| s.parse().ok()).unwrap_or(0u64) ^ 0xC0FFEE
}
fn eq256(a: __m256i, b: __m256i) -> bool {
    m::tb(a) == m::tb(b)
}
fn eq128(a: __m128i, b: __m128i) -> bool {
    m::tb16(a) == m::tb16(b)
}
/// all 2^16 (x, y) byte pairs replicated over every lane
fn pairs256() -> impl Iterator<Item = (__m256i, __m256i)> {
    (0u32..65536).map(|p| unsafe { (_mm256_set1_epi8((p & 0xff) as i8), _mm256_set1_epi8((p >> 8) as i8)) })
}
fn pairs128() -> impl Iterator<Item = (__m128i, __m128i)> {
    (0u32..65536).map(|p| unsafe { (_mm_set1_epi8((p & 0xff) as i8), _mm_set1_epi8((p >> 8) as i8)) })
}
const N: usize = 100_000;

macro_rules! bin256 {
    ($name:ident, $feat:tt, $real:ident, $model:path) => {
        #[test]
        fn $name() {
            assert!(is_x86_feature_detected!($feat));
            let mut r = Rng(seed());
            for (a, b) in pairs256() {
                assert!(eq256(unsafe { $real(a, b) }, $model(a, b)));
            }
            for _ in 0..N {
                let (a, b) = (r.v256(), r.v256());
                assert!(eq256(unsafe { $real(a, b) }, $model(a, b)));
            }
        }
    };
}
macro_rules! bin128 {
    ($name:ident, $feat:tt, $real:ident, $model:path) => {
        #[test]
        fn $name() {
            assert!(is_x86_feature_detected!($feat));
            let mut r = Rng(seed());
            for (a, b) in pairs128() {
                assert!(eq128(unsafe { $real(a, b) }, $model(a, b)));
            }
            for _ in 0..N {
                let (a, b) = (r.v128(), r.v128());
                assert!(eq128(unsafe { $real(a, b) }, $model(a, b)));
            }
        }
    };
}

bin256!(shuffle256, "avx2", _mm256_shuffle_epi8, m::mm256_shuffle_epi8);
bin256!(sad256, "avx2", _mm256_sad_epu8, m::mm256_sad_epu8);
bin256!(max256, "avx2", _mm256_max_epu8, m::mm256_max_epu8);
bin256!(min256, "avx2", _mm256_min_epu8, m::mm256_min_epu8);
bin256!(subs256, "avx2", _mm256_subs_epu8, m::mm256_subs_epu8);
bin256!(sub256, "avx2", _mm256_sub_epi8, m::mm256_sub_epi8);
bin256!(add256, "avx2", _mm256_add_epi8, m::mm256_add_epi8);
bin128!(shuffle128, "ssse3", _mm_shuffle_epi8, m::mm_shuffle_epi8);
bin128!(max128, "sse2", _mm_max_epu8, m::mm_max_epu8);
bin128!(min128, "sse2", _mm_min_epu8, m::mm_min_epu8);
bin128!(subs128, "sse2", _mm_subs_epu8, m::mm_subs_epu8);
bin128!(sub128, "sse2", _mm_sub_epi8, m::mm_sub_epi8);

#[test]
fn testz256() {
    assert!(is_x86_feature_detected!("avx2"));
    let mut r = Rng(seed());
    for (a, b) in pairs256() {
        assert_eq!(unsafe { _mm256_testz_si256(a, b) }, m::mm256_testz_si256(a, b));
    }
    for i in 0..N {
        let a = r.v256();
        // make zero-intersections common
        let b = if i % 3 == 0 { unsafe { _mm256_andnot_si256(a, r.v256()) } } else { r.v256() };
        assert_eq!(unsafe { _mm256_testz_si256(a, b) }, m::mm256_testz_si256(a, b));
    }
}

#[test]
fn minpos128() {
    assert!(is_x86_feature_detected!("sse4.1"));
    let mut r = Rng(seed());
    for i in 0..N * 4 {
        let mut a: [u16; 8] = unsafe { core::mem::transmute(r.v128()) };
        if i % 2 == 0 {
            // force ties and small ranges
            for x in a.iter_mut() {
                *x %= 4;
            }
        }
        let v: __m128i = unsafe { core::mem::transmute(a) };
        assert!(eq128(unsafe { _mm_minpos_epu16(v) }, m::mm_minpos_epu16(v)));
    }
}

#[test]
fn pdep64() {
    assert!(is_x86_feature_detected!("bmi2"));
    let mut r = Rng(seed());
    for s in 0u64..256 {
        for k in 0u64..256 {
            let (a, b) = (s * 0x0101_0101_0101_0101, k * 0x0102_0408_1020_4080);
            assert_eq!(unsafe { _pdep_u64(a, b) }, m::pdep_u64(a, b));
        }
    }
    for i in 0..N * 4 {
        let a = r.next();
        let b = if i % 4 == 0 { r.next() & r.next() & r.next() } else if i % 4 == 1 { r.next() | r.next() } else { r.next() };
        assert_eq!(unsafe { _pdep_u64(a, b) }, m::pdep_u64(a, b));
    }
    assert_eq!(unsafe { _pdep_u64(u64::MAX, u64::MAX) }, m::pdep_u64(u64::MAX, u64::MAX));
    assert_eq!(unsafe { _pdep_u64(u64::MAX, 0) }, m::pdep_u64(u64::MAX, 0));
}

//! C01 — BitVec rank/select/access are exact.
//!
//! Compositional: rank directory, select index and scan are each decided
//! against a prefix-sum characterisation on more words than the whole-BitVec
//! harnesses can afford; the whole `BitVec` is then decided on 2 words (+1
//! surplus word) for a list of concrete lengths and sample rates.

use crate::models;
use crate::spec;
use crate::stubs::{any_bool, no, yes};
use succinctly::{BitVec, Config, RankDirectory, RankSelect, SelectIndex};

// ---- rank directory ----------------------------------------------------------

macro_rules! rankdir {
    ($name:ident, $n:expr) => {
        #[kani::proof]
        #[kani::stub(alloc::vec::Vec::push, crate::stubs::push_no_grow)]
        #[kani::stub(alloc::vec::Vec::with_capacity, crate::stubs::with_capacity_const)]
        #[kani::unwind(20)]
        fn $name() {
            let w: [u64; $n] = kani::any();
            let rd = RankDirectory::build(&w);
            let mut acc = 0usize;
            let mut i = 0;
            while i < $n {
                assert!(rd.rank_at_word(i) == acc);
                acc += w[i].count_ones() as usize;
                i += 1;
            }
            kani::cover!(acc == 64 * $n);
            kani::cover!(acc == 0);
            core::mem::forget(rd);
        }
    };
}
rankdir!(c01_rankdir_9, 9);
rankdir!(c01_rankdir_17, 17);

// ---- select index --------------------------------------------------------------

fn prefix(w: &[u64], upto: usize) -> usize {
    let mut acc = 0usize;
    let mut i = 0;
    while i < upto {
        acc += w[i].count_ones() as usize;
        i += 1;
    }
    acc
}

macro_rules! selidx {
    ($name:ident, $n:expr, $rate:expr) => {
        #[kani::proof]
        #[kani::stub(alloc::vec::Vec::push, crate::stubs::push_no_grow)]
        #[kani::stub(alloc::vec::Vec::with_capacity, crate::stubs::with_capacity_const)]
        #[kani::unwind(6)]
        fn $name() {
            let w: [u64; $n] = kani::any();
            let total = prefix(&w, $n);
            let idx = SelectIndex::<u64>::build(&w, total, $rate);
            let k: usize = kani::any();
            kani::assume(k < total);
            let (sw, rem) = idx.jump_to(k);
            // the k-th one lies at or after word sw, and rem is its rank counted from sw
            assert!(sw < $n);
            assert!(prefix(&w, sw) + rem == k);
            kani::cover!(sw == $n - 1 && rem > 0);
            kani::cover!(sw > 0 && rem == 0);
            core::mem::forget(idx);
        }
    };
}
// concrete sample rates (a symbolic divisor exhausts memory: see DESIGN §3)
selidx!(c01_selidx_2w_rate1, 2, 1);
selidx!(c01_selidx_3w_rate2, 3, 2);
selidx!(c01_selidx_3w_rate3, 3, 3);
selidx!(c01_selidx_4w_rate64, 4, 64);
selidx!(c01_selidx_4w_rate100, 4, 100);
selidx!(c01_selidx_4w_rate256, 4, 256);
selidx!(c01_selidx_3w_rate4096, 3, 4096);

/// Larger k: a concrete dense skeleton (alternating-bit words, 32 ones each) with
/// one arbitrary word, non-power-of-two rates. jump_to must still land at or
/// before the k-th one with the right remainder. (Reaches sample slots far beyond
/// what 4 fully symbolic words can hold.)
macro_rules! selidx_dense {
    ($name:ident, $n:expr, $rate:expr) => {
        #[kani::proof]
        #[kani::stub(alloc::vec::Vec::push, crate::stubs::push_no_grow)]
        #[kani::stub(alloc::vec::Vec::with_capacity, crate::stubs::with_capacity_const)]
        #[kani::unwind(6)]
        fn $name() {
            let mut w = [0xAAAA_AAAA_AAAA_AAAAu64; $n];
            let x: u64 = kani::any();
            kani::assume(x.count_ones() == 32);
            w[$n / 2] = x;
            let total = 32 * $n;
            let idx = SelectIndex::<u64>::build(&w, total, $rate);
            let k: usize = kani::any();
            kani::assume(k < total);
            let (sw, rem) = idx.jump_to(k);
            assert!(sw < $n);
            assert!(prefix(&w, sw) + rem == k);
            kani::cover!(sw > $n / 2 && rem > 0);
            kani::cover!(k > 1000);
            core::mem::forget(idx);
        }
    };
}
selidx_dense!(c01_selidx_dense48_rate100, 48, 100);
selidx_dense!(c01_selidx_dense48_rate255, 48, 255);
selidx_dense!(c01_selidx_dense48_rate1000, 48, 1000);
selidx_dense!(c01_selidx_dense48_rate7, 48, 7);

/// Sparse concrete skeleton: two ones per word, one arbitrary two-bit word, so
/// sample points and the k-th one usually sit in different words (a sample slot
/// that is off by one then lands in a LATER word than the target).
macro_rules! selidx_sparse {
    ($name:ident, $n:expr, $rate:expr) => {
        #[kani::proof]
        #[kani::stub(alloc::vec::Vec::push, crate::stubs::push_no_grow)]
        #[kani::stub(alloc::vec::Vec::with_capacity, crate::stubs::with_capacity_const)]
        #[kani::unwind(6)]
        fn $name() {
            let mut w = [(1u64 << 7) | (1u64 << 40); $n];
            let x: u64 = kani::any();
            kani::assume(x.count_ones() == 2);
            w[$n / 3] = x;
            let total = 2 * $n;
            let idx = SelectIndex::<u64>::build(&w, total, $rate);
            let k: usize = kani::any();
            kani::assume(k < total);
            let (sw, rem) = idx.jump_to(k);
            // every word holds two ones: the k-th one is in word k / 2
            assert!(sw <= k / 2);
            assert!(2 * sw + rem == k);
            kani::cover!(k > 500 && rem > 50);
            core::mem::forget(idx);
        }
    };
}
selidx_sparse!(c01_selidx_sparse270_rate255, 270, 255);
selidx_sparse!(c01_selidx_sparse270_rate100, 270, 100);

// ---- shared scan ---------------------------------------------------------------

/// `scan_select(words, S, rem)`: `Some((w, r))` iff the ones in words[S..w]
/// plus r equal rem with r inside word w; `None` iff there are at most `rem`
/// ones from S on.
macro_rules! scan {
    ($name:ident, $n:expr, $start:expr, $avx2:path) => {
        #[kani::proof]
        #[kani::stub(alloc::vec::Vec::push, crate::stubs::push_no_grow)]
        #[kani::stub(alloc::vec::Vec::with_capacity, crate::stubs::with_capacity_const)]
        #[kani::unwind(34)]
        #[kani::stub(std_detect::detect::__is_feature_detected::avx2, $avx2)]
        #[kani::stub(core::arch::x86_64::_mm256_shuffle_epi8, models::mm256_shuffle_epi8)]
        #[kani::stub(core::arch::x86_64::_mm256_sad_epu8, models::mm256_sad_epu8)]
        fn $name() {
            let w: [u64; $n] = kani::any();
            let rem: usize = kani::any();
            kani::assume(rem <= 64 * $n + 1);
            let got = succinctly::bits::scan_select(&w, $start, rem);
            // sequential prefix sums from the start word
            let mut acc = 0usize;
            let mut expect: Option<(usize, usize)> = None;
            let mut i = $start;
            while i < $n {
                let pop = w[i].count_ones() as usize;
                if expect.is_none() && rem < acc + pop {
                    expect = Some((i, rem - acc));
                }
                acc += pop;
                i += 1;
            }
            assert!(got == expect);
            assert!(succinctly::bits::scan_select_scalar(&w, $start, rem) == expect);
            kani::cover!(matches!(got, Some((x, _)) if x >= $start + 8));
            kani::cover!(got.is_none());
        }
    };
}
scan!(c01_scan_19_s0_portable, 19, 0, no);
scan!(c01_scan_19_s0_avx2, 19, 0, yes);
scan!(c01_scan_19_s2_any, 19, 2, any_bool);
scan!(c01_scan_19_s3_portable, 19, 3, no);
scan!(c01_scan_19_s10_any, 19, 10, any_bool);
scan!(c01_scan_27_s0_portable, 27, 0, no);
scan!(c01_scan_27_s1_avx2, 27, 1, yes);
scan!(c01_scan_9_s0_any, 9, 0, any_bool);

#[kani::proof]
#[kani::stub(alloc::vec::Vec::push, crate::stubs::push_no_grow)]
        #[kani::stub(alloc::vec::Vec::with_capacity, crate::stubs::with_capacity_const)]
#[kani::unwind(20)]
fn c01_scan_start_out_of_range() {
    let w: [u64; 3] = kani::any();
    let s: usize = kani::any();
    kani::assume(s >= 3);
    let rem: usize = kani::any();
    assert!(succinctly::bits::scan_select(&w, s, rem).is_none());
    assert!(succinctly::bits::scan_select_scalar(&w, s, rem).is_none());
}

// ---- popcount_words (feature-dependent strategy) ---------------------------------

#[kani::proof]
#[kani::stub(alloc::vec::Vec::push, crate::stubs::push_no_grow)]
        #[kani::stub(alloc::vec::Vec::with_capacity, crate::stubs::with_capacity_const)]
#[kani::unwind(12)]
#[kani::stub(std_detect::detect::__is_feature_detected::avx512f, no)]
#[kani::stub(std_detect::detect::__is_feature_detected::avx512vpopcntdq, no)]
#[kani::stub(std_detect::detect::__is_feature_detected::popcnt, any_bool)]
fn c01_popcount_words_9() {
    let w: [u64; 9] = kani::any();
    let n: usize = kani::any();
    kani::assume(n <= 9);
    let got = succinctly::popcount_words(&w[..n]);
    assert!(got == prefix(&w, n));
    kani::cover!(n == 9 && got == 576);
}

// ---- whole BitVec ----------------------------------------------------------------

/// 2 words + 1 surplus word, all arbitrary (stray bits included); the oracle
/// sees only the first `len` bits.
macro_rules! bitvec_rank {
    ($name:ident, $len:expr, $rate:expr) => {
        #[kani::proof]
        #[kani::stub(alloc::vec::Vec::push, crate::stubs::push_no_grow)]
        #[kani::stub(alloc::vec::Vec::with_capacity, crate::stubs::with_capacity_const)]
        #[kani::unwind(9)]
        #[kani::stub(succinctly::util::simd::x86::has_fast_bmi2, any_bool)]
        #[kani::stub(core::arch::x86_64::_pdep_u64, models::pdep_u64)]
        #[kani::stub(std_detect::detect::__is_feature_detected::avx2, yes)]
        #[kani::stub(core::arch::x86_64::_mm256_shuffle_epi8, models::mm256_shuffle_epi8)]
        #[kani::stub(core::arch::x86_64::_mm256_sad_epu8, models::mm256_sad_epu8)]
        fn $name() {
            let w: [u64; 3] = kani::any();
            let m = spec::masked(&w, $len);
            let bv = BitVec::with_config(vec![w[0], w[1], w[2]], $len, Config { select_sample_rate: $rate });
            let i: usize = kani::any();
            kani::assume(i <= 200);
            let lim = if i < $len { i } else { $len };
            let r1 = spec::rank1(&m, lim);
            assert!(bv.rank1(i) == r1);
            assert!(bv.rank0(i) == lim - r1);
            assert!(bv.len() == $len);
            assert!(bv.count_ones() == spec::rank1(&m, $len));
            assert!(bv.count_zeros() == $len - spec::rank1(&m, $len));
            if i < $len {
                assert!(bv.get(i) == spec::bit(&m, i));
            }
            kani::cover!($len <= 66 || (i > 64 && i < $len && r1 > 60));
            core::mem::forget(bv);
        }
    };
}
macro_rules! bitvec_select {
    ($name:ident, $len:expr, $rate:expr) => {
        #[kani::proof]
        #[kani::stub(alloc::vec::Vec::push, crate::stubs::push_no_grow)]
        #[kani::stub(alloc::vec::Vec::with_capacity, crate::stubs::with_capacity_const)]
        #[kani::unwind(9)]
        #[kani::stub(succinctly::util::simd::x86::has_fast_bmi2, any_bool)]
        #[kani::stub(core::arch::x86_64::_pdep_u64, models::pdep_u64)]
        #[kani::stub(std_detect::detect::__is_feature_detected::avx2, yes)]
        #[kani::stub(core::arch::x86_64::_mm256_shuffle_epi8, models::mm256_shuffle_epi8)]
        #[kani::stub(core::arch::x86_64::_mm256_sad_epu8, models::mm256_sad_epu8)]
        fn $name() {
            let w: [u64; 3] = kani::any();
            let m = spec::masked(&w, $len);
            let bv = BitVec::with_config(vec![w[0], w[1], w[2]], $len, Config { select_sample_rate: $rate });
            let k: usize = kani::any();
            kani::assume(k <= 200);
            let got = bv.select1(k);
            match got {
                Some(p) => {
                    assert!(p < $len);
                    assert!(spec::bit(&m, p));
                    assert!(spec::rank1(&m, p) == k);
                }
                None => assert!(k >= spec::rank1(&m, $len)),
            }
            let got0 = bv.select0(k);
            match got0 {
                Some(p) => {
                    assert!(p < $len);
                    assert!(!spec::bit(&m, p));
                    assert!(p - spec::rank1(&m, p) == k);
                }
                None => assert!(k >= $len - spec::rank1(&m, $len)),
            }
            kani::cover!(matches!(got, Some(p) if p >= 64));
            kani::cover!(matches!(got0, Some(p) if p >= 64));
            kani::cover!(got.is_none() && k < $len);
            core::mem::forget(bv);
        }
    };
}
bitvec_rank!(c01_bv_rank_len100_rate256, 100, 256);
bitvec_rank!(c01_bv_rank_len128_rate64, 128, 64);
bitvec_rank!(c01_bv_rank_len65_rate4096, 65, 4096);
bitvec_select!(c01_bv_select_len100_rate256, 100, 256);
bitvec_select!(c01_bv_select_len100_rate1, 100, 1);
bitvec_select!(c01_bv_select_len128_rate3, 128, 3);
bitvec_select!(c01_bv_select_len65_rate64, 65, 64);
bitvec_select!(c01_bv_select_len64_rate2, 64, 2);
bitvec_select!(c01_bv_select_len63_rate4096, 63, 4096);

/// Degenerate lengths: 0 and 1 bits over arbitrary (stray) words.
#[kani::proof]
#[kani::stub(alloc::vec::Vec::push, crate::stubs::push_no_grow)]
        #[kani::stub(alloc::vec::Vec::with_capacity, crate::stubs::with_capacity_const)]
#[kani::unwind(10)]
#[kani::stub(succinctly::util::simd::x86::has_fast_bmi2, any_bool)]
#[kani::stub(core::arch::x86_64::_pdep_u64, models::pdep_u64)]
fn c01_bv_len0_len1() {
    let w: [u64; 2] = kani::any();
    let rate: u32 = kani::any();
    kani::assume(rate >= 1 && rate <= 4096);
    let i: usize = kani::any();
    let bv0 = BitVec::with_config(vec![w[0], w[1]], 0, Config { select_sample_rate: rate });
    assert!(bv0.rank1(i) == 0 && bv0.rank0(i) == 0);
    assert!(bv0.select1(i).is_none() && bv0.select0(i).is_none());
    assert!(bv0.count_ones() == 0 && bv0.count_zeros() == 0);
    let bv1 = BitVec::with_config(vec![w[0], w[1]], 1, Config { select_sample_rate: rate });
    let b = w[0] & 1 == 1;
    assert!(bv1.get(0) == b);
    assert!(bv1.rank1(i) == if i >= 1 && b { 1 } else { 0 });
    assert!(bv1.rank0(i) == if i >= 1 && !b { 1 } else { 0 });
    assert!(bv1.select1(i) == if i == 0 && b { Some(0) } else { None });
    assert!(bv1.select0(i) == if i == 0 && !b { Some(0) } else { None });
    kani::cover!(b && i == 0);
    core::mem::forget(bv0);
    core::mem::forget(bv1);
}

#[kani::proof]
#[kani::stub(alloc::vec::Vec::push, crate::stubs::push_no_grow)]
        #[kani::stub(alloc::vec::Vec::with_capacity, crate::stubs::with_capacity_const)]
#[kani::unwind(20)]
fn c01_witness_must_fail() {
    let w: [u64; 9] = kani::any();
    let rd = RankDirectory::build(&w);
    // wrong on purpose: rank at the last word is claimed to be below 512
    assert!(rd.rank_at_word(8) < 512);
    core::mem::forget(rd);
}

//! C08 — strict JSON validation accepts exactly RFC 8259 documents.
//!
//! Bound: a concrete nesting skeleton (prefix/suffix) around a fully symbolic
//! window whose bytes may be anything except `[` and `{` (so the recursion
//! depth of the validator stays concrete).

use crate::spec_json::{recognise, Verdict};
use std::borrow::Cow;
use succinctly::json::validate::validate;

fn lossy_stub(_v: &[u8]) -> Cow<'_, str> {
    Cow::Borrowed("")
}

/// (line, column) of a byte offset: LF, CR and CRLF are single line breaks.
fn line_col(t: &[u8], off: usize) -> (usize, usize) {
    let mut line = 1usize;
    let mut start = 0usize;
    let mut i = 0;
    while i < off {
        if t[i] == b'\n' {
            line += 1;
            start = i + 1;
            i += 1;
        } else if t[i] == b'\r' {
            if i + 1 < t.len() && t[i + 1] == b'\n' {
                i += 2;
            } else {
                i += 1;
            }
            line += 1;
            start = i;
        } else {
            i += 1;
        }
    }
    (line, off - start + 1)
}

/// Stand-ins for the container validators in skeletons that contain no
/// container: reaching one is a failed assertion (the window excludes `[` and
/// `{`), so their unreachability is decided, not assumed.
fn no_container<'a>(_v: &mut succinctly::json::validate::Validator<'a>) -> Result<(), succinctly::json::validate::ValidationError>
where
    'a: 'a,
{
    panic!("container validator reached although the input holds no opening bracket or brace")
}

fn hexval(c: u8) -> Option<u16> {
    match c {
        b'0'..=b'9' => Some((c - b'0') as u16),
        b'a'..=b'f' => Some((c - b'a' + 10) as u16),
        b'A'..=b'F' => Some((c - b'A' + 10) as u16),
        _ => None,
    }
}
/// Role of the known finding: the text starts with `"\uXXXX` where XXXX is a surrogate
/// code point (D800..=DFFF) that is not the high half of a `\uD8xx\uDCxx` pair. Only the
/// `"\u` skeleton can hold such an escape within these bounds; for every other skeleton
/// this is constant false.
fn holds_unpaired_surrogate_escape(b: &[u8]) -> bool {
    if b.len() < 8 || b[0] != b'"' || b[1] != b'\\' || b[2] != b'u' {
        return false;
    }
    match (hexval(b[3]), hexval(b[4]), hexval(b[5]), hexval(b[6])) {
        (Some(a), Some(c), Some(d), Some(e)) => {
            let v = (a << 12) | (c << 8) | (d << 4) | e;
            // an 8-byte text cannot hold the second escape of a pair
            v >= 0xD800 && v <= 0xDFFF
        }
        _ => false,
    }
}

macro_rules! window {
    ($name:ident, $pre:expr, $w:expr, $suf:expr, $n:expr, $depth:expr) => {
        window!($name, $pre, $w, $suf, $n, $depth, );
    };
    ($name:ident, $pre:expr, $w:expr, $suf:expr, $n:expr, $depth:expr, $($stub:meta),*) => {
        #[kani::proof]
        #[kani::unwind(8)]
        #[kani::stub(alloc::string::String::from_utf8_lossy, lossy_stub)]
        $(#[$stub])*
        fn $name() {
            let pre: &[u8] = $pre;
            let suf: &[u8] = $suf;
            let w: [u8; $w] = kani::any();
            let mut b = [0u8; $n];
            let mut i = 0;
            while i < pre.len() {
                b[i] = pre[i];
                i += 1;
            }
            let mut j = 0;
            while j < $w {
                kani::assume(w[j] != b'[' && w[j] != b'{');
                b[pre.len() + j] = w[j];
                j += 1;
            }
            let mut k = 0;
            while k < suf.len() {
                b[pre.len() + $w + k] = suf[k];
                k += 1;
            }
            // known finding C08-unpaired-surrogate-escape is decided by its own harness
            kani::assume(!holds_unpaired_surrogate_escape(&b));
            let want = recognise::<$depth>(&b, 128);
            let got = validate(&b);
            match (&got, want) {
                (Ok(()), Verdict::Accept) => {}
                (Err(e), Verdict::Reject { viable }) => {
                    assert!(e.position.offset <= viable);
                    let (l, c) = line_col(&b, e.position.offset);
                    assert!(e.position.line == l && e.position.column == c);
                }
                _ => assert!(false),
            }
            kani::cover!(got.is_ok());
            kani::cover!(matches!(want, Verdict::Reject { viable } if viable >= pre.len() + 1));
            core::mem::forget(got);
        }
    };
}
// top level
window!(c08_top_w3, b"", 3, b"", 3, 1,
    kani::stub(succinctly::json::validate::Validator::validate_array, no_container),
    kani::stub(succinctly::json::validate::Validator::validate_object, no_container));
window!(c08_top_w4, b"", 4, b"", 4, 1,
    kani::stub(succinctly::json::validate::Validator::validate_array, no_container),
    kani::stub(succinctly::json::validate::Validator::validate_object, no_container));
window!(c08_top_w5, b"", 5, b"", 5, 1,
    kani::stub(succinctly::json::validate::Validator::validate_array, no_container),
    kani::stub(succinctly::json::validate::Validator::validate_object, no_container));
// inside an array / after an element / nested
window!(c08_arr_w3, b"[", 3, b"]", 5, 2,
    kani::stub(succinctly::json::validate::Validator::validate_object, no_container));
window!(c08_arr_w4, b"[", 4, b"]", 6, 2,
    kani::stub(succinctly::json::validate::Validator::validate_object, no_container));
window!(c08_arr_after_w3, b"[1,", 3, b"]", 7, 2,
    kani::stub(succinctly::json::validate::Validator::validate_object, no_container));
window!(c08_arr2_w2, b"[[", 2, b"]]", 6, 3,
    kani::stub(succinctly::json::validate::Validator::validate_object, no_container));
// object key / value positions
window!(c08_objval_w3, b"{\"a\":", 3, b"}", 9, 2,
    kani::stub(succinctly::json::validate::Validator::validate_array, no_container));
window!(c08_objkey_w3, b"{", 3, b":1}", 7, 2,
    kani::stub(succinctly::json::validate::Validator::validate_array, no_container));
// inside a string, after \u, after minus, after a digit, surrounded by whitespace
window!(c08_str_w4, b"\"", 4, b"\"", 6, 1,
    kani::stub(succinctly::json::validate::Validator::validate_array, no_container),
    kani::stub(succinctly::json::validate::Validator::validate_object, no_container));
window!(c08_str_w5, b"\"", 5, b"\"", 7, 1,
    kani::stub(succinctly::json::validate::Validator::validate_array, no_container),
    kani::stub(succinctly::json::validate::Validator::validate_object, no_container));
window!(c08_uesc_w4, b"\"\\u", 4, b"\"", 8, 1,
    kani::stub(succinctly::json::validate::Validator::validate_array, no_container),
    kani::stub(succinctly::json::validate::Validator::validate_object, no_container));
window!(c08_minus_w3, b"-", 3, b"", 4, 1,
    kani::stub(succinctly::json::validate::Validator::validate_array, no_container),
    kani::stub(succinctly::json::validate::Validator::validate_object, no_container));
window!(c08_digit_w4, b"1", 4, b"", 5, 1,
    kani::stub(succinctly::json::validate::Validator::validate_array, no_container),
    kani::stub(succinctly::json::validate::Validator::validate_object, no_container));
window!(c08_ws_w3, b" \r\n", 3, b"\n ", 8, 1,
    kani::stub(succinctly::json::validate::Validator::validate_array, no_container),
    kani::stub(succinctly::json::validate::Validator::validate_object, no_container));

/// Nesting cap: K opens, a 1-byte window, K closes. Accepted iff K <= 128 and the window is a value.
macro_rules! depth {
    ($name:ident, $k:expr, $n:expr) => {
        #[kani::proof]
        #[kani::unwind(8)]
        #[kani::stub(alloc::string::String::from_utf8_lossy, lossy_stub)]
        fn $name() {
            let w: u8 = kani::any();
            kani::assume(w != b'[' && w != b'{');
            let mut b = [b'['; $n];
            b[$k] = w;
            let mut i = $k + 1;
            while i < $n {
                b[i] = b']';
                i += 1;
            }
            let got = validate(&b);
            let window_ok = w >= b'0' && w <= b'9' || w == b' ' || w == b'\t' || w == b'\n' || w == b'\r';
            assert!(got.is_ok() == ($k <= 128 && window_ok));
            if $k > 128 {
                // the 129th open is where the text stops being acceptable
                assert!(matches!(&got, Err(e) if e.position.offset <= 128));
            }
            kani::cover!(w == b'7');
            core::mem::forget(got);
        }
    };
}
depth!(c08_depth_127, 127, 255);
depth!(c08_depth_128, 128, 257);
depth!(c08_depth_129, 129, 259);

#[kani::proof]
#[kani::unwind(8)]
#[kani::stub(alloc::string::String::from_utf8_lossy, lossy_stub)]
fn c08_witness_must_fail() {
    let w: [u8; 2] = kani::any();
    kani::assume(w[0] != b'[' && w[0] != b'{' && w[1] != b'[' && w[1] != b'{');
    let got = validate(&w);
    // wrong on purpose: claims a leading zero may be followed by a digit
    assert!(got.is_ok() == (w[0] >= b'0' && w[0] <= b'9' && w[1] >= b'0' && w[1] <= b'9'));
    core::mem::forget(got);
}

/// Known finding C08-unpaired-surrogate-escape: RFC 8259's grammar admits any `\uXXXX`
/// (section 8.2 names `"\uDEAD"` as grammatical), the strict validator rejects a surrogate
/// escape that is not part of a pair. Every text `"\uXXXX"` with XXXX in D800..=DFFF.
#[kani::proof]
#[kani::unwind(10)]
#[kani::stub(alloc::string::String::from_utf8_lossy, lossy_stub)]
#[kani::stub(succinctly::json::validate::Validator::validate_array, no_container)]
#[kani::stub(succinctly::json::validate::Validator::validate_object, no_container)]
fn c08_unpaired_surrogate_escape() {
    let w: [u8; 4] = kani::any();
    let b = [b'"', b'\\', b'u', w[0], w[1], w[2], w[3], b'"'];
    kani::assume(holds_unpaired_surrogate_escape(&b));
    let want = recognise::<1>(&b, 128);
    assert!(want == Verdict::Accept);
    let got = validate(&b);
    let rfc8259_text_is_accepted = got.is_ok();
    assert!(rfc8259_text_is_accepted);
    core::mem::forget(got);
}

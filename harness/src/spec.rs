//! Reference specifications: bit-at-a-time / byte-at-a-time loops, no tables,
//! nothing shared with the repository. Each is the oracle a harness compares
//! the real code against.

/// Bit `i` of a word slice (LSB-first within each word).
#[inline(always)]
pub fn bit(words: &[u64], i: usize) -> bool {
    (words[i / 64] >> (i % 64)) & 1 == 1
}

/// Position of the k-th set bit of `x` (0-indexed), 64 if there is none.
pub fn select_in_word(x: u64, k: u32) -> u32 {
    let mut seen = 0u32;
    let mut i = 0u32;
    while i < 64 {
        if (x >> i) & 1 == 1 {
            if seen == k {
                return i;
            }
            seen += 1;
        }
        i += 1;
    }
    64
}

/// Position of the k-th set bit of a byte, 8 if there is none.
pub fn select_in_byte(b: u8, k: u32) -> u32 {
    let mut seen = 0u32;
    let mut i = 0u32;
    while i < 8 {
        if (b >> i) & 1 == 1 {
            if seen == k {
                return i;
            }
            seen += 1;
        }
        i += 1;
    }
    8
}

/// Number of set bits of a word, one bit at a time.
pub fn popcount64(x: u64) -> u32 {
    let mut c = 0u32;
    let mut i = 0u32;
    while i < 64 {
        c += ((x >> i) & 1) as u32;
        i += 1;
    }
    c
}

/// Number of set bits of a byte, one bit at a time.
pub fn popcount8(x: u8) -> u32 {
    let mut c = 0u32;
    let mut i = 0u32;
    while i < 8 {
        c += ((x >> i) & 1) as u32;
        i += 1;
    }
    c
}

/// Number of set bits among the first `lim` bits of `words`.
pub fn rank1(words: &[u64], lim: usize) -> usize {
    let mut r = 0usize;
    let mut wi = 0;
    while wi < words.len() {
        let lo = wi * 64;
        if lim > lo {
            let n = if lim - lo >= 64 { 64 } else { lim - lo };
            let m = if n == 64 { u64::MAX } else { (1u64 << n) - 1 };
            r += (words[wi] & m).count_ones() as usize;
        }
        wi += 1;
    }
    r
}

/// First position in the word where the running excess (1 = +1, 0 = -1) goes
/// negative; 64 if it never does.
pub fn find_unmatched_close_in_word(x: u64) -> u32 {
    let mut e: i32 = 0;
    let mut i = 0u32;
    while i < 64 {
        if (x >> i) & 1 == 1 {
            e += 1;
        } else {
            e -= 1;
        }
        if e < 0 {
            return i;
        }
        i += 1;
    }
    64
}

/// In-word matching close for the parenthesis at `p`, as documented:
/// `None` for `p >= 64`; a close at `p` "matches itself"; otherwise the first
/// position after `p` where the excess counted from `p` returns to zero, `None`
/// when that lies beyond the word.
pub fn find_close_in_word(x: u64, p: u32) -> Option<u32> {
    if p >= 64 {
        return None;
    }
    if (x >> p) & 1 == 0 {
        return Some(p);
    }
    let mut e: i32 = 0;
    let mut i = p;
    while i < 64 {
        if (x >> i) & 1 == 1 {
            e += 1;
        } else {
            e -= 1;
        }
        if e == 0 {
            return Some(i);
        }
        i += 1;
    }
    None
}

/// First `len` bits of `src` copied into a zeroed array (everything at or
/// past `len`, including whole surplus words, cleared). The oracle only ever
/// looks at this masked copy, so it cannot depend on stray bits.
pub fn masked<const N: usize>(src: &[u64; N], len: usize) -> [u64; N] {
    let mut out = [0u64; N];
    let mut i = 0;
    while i < N {
        let lo = i * 64;
        if len > lo {
            let n = if len - lo >= 64 { 64 } else { len - lo };
            let m = if n == 64 { u64::MAX } else { (1u64 << n) - 1 };
            out[i] = src[i] & m;
        }
        i += 1;
    }
    out
}

/// Position of the k-th set bit among the first `len` bits (words must be
/// masked), None if there are fewer than k+1.
pub fn select1(words: &[u64], len: usize, k: usize) -> Option<usize> {
    let mut seen = 0usize;
    let mut wi = 0;
    while wi < words.len() {
        let pop = words[wi].count_ones() as usize;
        if k < seen + pop {
            let p = wi * 64 + select_in_word(words[wi], (k - seen) as u32) as usize;
            return if p < len { Some(p) } else { None };
        }
        seen += pop;
        wi += 1;
    }
    None
}

//! Kani harnesses over rust-works/succinctly (see /verif/DESIGN.md).
#![allow(unused)]
#![allow(clippy::all)]

pub mod models;
pub mod spec;
pub mod stubs;

#[cfg(all(kani, feature = "c02"))]
mod c02;
#[cfg(all(kani, feature = "c01"))]
mod c01;

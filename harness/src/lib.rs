//! Kani harnesses over rust-works/succinctly (see /verif/DESIGN.md).
#![cfg_attr(kani, feature(allocator_api))]
#![allow(unused)]
#![allow(clippy::all)]

pub mod models;
pub mod spec;
pub mod spec_json;
pub mod stubs;

#[cfg(all(kani, feature = "c02"))]
mod c02;
#[cfg(all(kani, feature = "c01"))]
mod c01;
#[cfg(all(kani, feature = "c03"))]
mod c03;
#[cfg(all(kani, feature = "c12"))]
mod c12;
#[cfg(all(kani, feature = "c17"))]
mod c17;
#[cfg(all(kani, feature = "c31"))]
mod c31;
#[cfg(all(kani, feature = "c13"))]
mod c13;
#[cfg(all(kani, feature = "c20"))]
mod c20;
#[cfg(all(kani, feature = "c21"))]
mod c21;
#[cfg(all(kani, feature = "c09"))]
mod c09;
#[cfg(all(kani, feature = "c05"))]
mod c05;
#[cfg(all(kani, feature = "c07"))]
mod c07;
#[cfg(all(kani, feature = "c08"))]
mod c08;
#[cfg(all(kani, feature = "c16"))]
mod c16;
#[cfg(all(kani, feature = "c32"))]
mod c32;
#[cfg(all(kani, feature = "c04"))]
mod c04;

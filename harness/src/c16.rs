//! C16 (kernel half) — every vectorised YAML scanning kernel returns the same
//! answer as its byte-at-a-time definition, for every buffer and start offset
//! in the bound, on the AVX2 path, the SSE2 path and (in the `scalar-yaml`
//! build of the harness crate) the pure scalar kernels.

use crate::stubs::{any_bool, no, yes};
use succinctly::yaml::simd;

// ---- byte-at-a-time definitions ------------------------------------------------------

fn spec_find2(b: &[u8], start: usize, end: usize, x: u8, y: u8) -> Option<usize> {
    if start >= end || start >= b.len() {
        return None;
    }
    let end = if end < b.len() { end } else { b.len() };
    let mut i = start;
    while i < end {
        if b[i] == x || b[i] == y {
            return Some(i - start);
        }
        i += 1;
    }
    None
}
fn spec_spaces(b: &[u8], start: usize) -> usize {
    let mut i = start;
    while i < b.len() && b[i] == b' ' {
        i += 1;
    }
    if start >= b.len() {
        0
    } else {
        i - start
    }
}
fn spec_newline(b: &[u8], start: usize) -> Option<usize> {
    let mut i = start;
    while i < b.len() {
        if b[i] == b'\n' {
            return Some(i - start);
        }
        i += 1;
    }
    None
}
fn is_break(x: u8) -> bool {
    x == b'\n' || x == b'\r'
}
/// End of a block scalar: the start of the first line after `start` that has
/// content (not a line break) at an indentation below `min_indent`; otherwise
/// the end of input.
fn spec_block_end(b: &[u8], start: usize, min_indent: usize) -> usize {
    let n = b.len();
    let mut pos = start;
    while pos < n {
        if is_break(b[pos]) {
            let ls = pos + 1;
            if ls >= n {
                return n;
            }
            let mut ind = 0;
            while ls + ind < n && b[ls + ind] == b' ' {
                ind += 1;
            }
            if ls + ind < n && !is_break(b[ls + ind]) && ind < min_indent {
                return ls;
            }
        }
        pos += 1;
    }
    n
}
/// End of an anchor/alias name: stops at whitespace, a flow indicator, or a
/// colon that is followed by whitespace.
fn spec_anchor(b: &[u8], start: usize) -> usize {
    let n = b.len();
    let mut pos = start;
    while pos < n {
        let c = b[pos];
        let stop = c == b' ' || c == b'\t' || c == b'\n' || c == b'\r' || c == b'[' || c == b']' || c == b'{' || c == b'}' || c == b',';
        if stop {
            break;
        }
        if c == b':' && pos + 1 < n {
            let d = b[pos + 1];
            if d == b' ' || d == b'\t' || d == b'\n' || d == b'\r' {
                break;
            }
        }
        pos += 1;
    }
    pos
}

// ---- harness generator: default build gets the AVX2 probe stubbed, scalar build has none ---

macro_rules! kernel {
    ($name:ident, $avx2:path, $body:block) => {
        #[cfg(not(feature = "scalar-yaml"))]
        #[kani::proof]
        #[kani::unwind(4)]
        #[kani::stub(succinctly::yaml::simd::x86::avx2_enabled, $avx2)]
        fn $name() $body

        #[cfg(feature = "scalar-yaml")]
        #[kani::proof]
        #[kani::unwind(4)]
        fn $name() $body
    };
}

macro_rules! quote_or_escape {
    ($name:ident, $n:expr, $start:expr, $avx2:path) => {
        kernel!($name, $avx2, {
            let b: [u8; $n] = kani::any();
            let end: usize = kani::any();
            kani::assume(end <= $n + 2);
            let got = simd::find_quote_or_escape(&b, $start, end);
            assert!(got == spec_find2(&b, $start, end, b'"', b'\\'));
            let got1 = simd::find_single_quote(&b, $start, end);
            assert!(got1 == spec_find2(&b, $start, end, b'\'', b'\''));
            kani::cover!(matches!(got, Some(x) if x + $start + 1 == $n));
            kani::cover!(got1.is_none() && end == $n);
        });
    };
}
quote_or_escape!(c16_quote_n40_s0_avx2, 40, 0, yes);
quote_or_escape!(c16_quote_n40_s3_avx2, 40, 3, yes);
quote_or_escape!(c16_quote_n40_s9_avx2, 40, 9, yes);
quote_or_escape!(c16_quote_n40_s25_avx2, 40, 25, yes);
quote_or_escape!(c16_quote_n70_s1_avx2, 70, 1, yes);
quote_or_escape!(c16_quote_n40_s0_sse2, 40, 0, no);
quote_or_escape!(c16_quote_n40_s7_sse2, 40, 7, no);
quote_or_escape!(c16_quote_n40_s25_sse2, 40, 25, no);
quote_or_escape!(c16_quote_n17_s1_any, 17, 1, any_bool);
quote_or_escape!(c16_quote_n15_s0_any, 15, 0, any_bool);

macro_rules! spaces_newline {
    ($name:ident, $n:expr, $start:expr, $avx2:path) => {
        kernel!($name, $avx2, {
            let b: [u8; $n] = kani::any();
            let got = simd::count_leading_spaces(&b, $start);
            assert!(got == spec_spaces(&b, $start));
            let nl = simd::find_newline(&b, $start);
            assert!(nl == if $start >= $n { None } else { spec_newline(&b, $start) });
            kani::cover!($start >= $n || got == $n - $start);
            kani::cover!($start >= $n || matches!(nl, Some(x) if x + $start + 1 == $n));
        });
    };
}
spaces_newline!(c16_spaces_n40_s0_avx2, 40, 0, yes);
spaces_newline!(c16_spaces_n40_s5_avx2, 40, 5, yes);
spaces_newline!(c16_spaces_n40_s24_avx2, 40, 24, yes);
spaces_newline!(c16_spaces_n70_s2_avx2, 70, 2, yes);
spaces_newline!(c16_spaces_n40_s0_sse2, 40, 0, no);
spaces_newline!(c16_spaces_n40_s9_sse2, 40, 9, no);
spaces_newline!(c16_spaces_n33_s1_any, 33, 1, any_bool);
spaces_newline!(c16_spaces_n15_s0_any, 15, 0, any_bool);
spaces_newline!(c16_spaces_n16_s16_any, 16, 16, any_bool);

macro_rules! block_end {
    ($name:ident, $n:expr, $start:expr, $avx2:path) => {
        kernel!($name, $avx2, {
            let b: [u8; $n] = kani::any();
            let mi: usize = kani::any();
            kani::assume(mi <= 4);
            let got = simd::find_block_scalar_end(&b, $start, mi);
            let want = if $start >= $n { $n } else { spec_block_end(&b, $start, mi) };
            assert!(got == Some(want));
            kani::cover!($start >= $n || (want > $start + 1 && want < $n && mi == 2));
            kani::cover!(want == $n);
        });
    };
}
/// Same kernel with deep indentation thresholds (min_indent up to 24, i.e. beyond
/// one 16-byte SSE2 chunk of spaces).
macro_rules! block_end_deep {
    ($name:ident, $n:expr, $start:expr, $avx2:path) => {
        kernel!($name, $avx2, {
            let b: [u8; $n] = kani::any();
            // one representative per byte class this kernel distinguishes (space, LF, CR,
            // anything else); the arbitrary-byte instances above cover the classification itself
            let mut q = 0;
            while q < $n {
                kani::assume(b[q] == b' ' || b[q] == b'\n' || b[q] == b'\r' || b[q] == b'x');
                q += 1;
            }
            let mi: usize = kani::any();
            kani::assume(mi >= 15 && mi <= 24);
            let got = simd::find_block_scalar_end(&b, $start, mi);
            let want = spec_block_end(&b, $start, mi);
            assert!(got == Some(want));
            kani::cover!(want > $start + 20 && want < $n && mi == 17);
            kani::cover!(want == $n && mi == 20);
        });
    };
}
/// Indentation sweep: "x\n" + S spaces + one arbitrary byte + filler, then a short
/// last line; S and min_indent range over 0..=26 (past one SSE2 chunk of spaces and
/// up to one AVX2 chunk minus the header), everything else is concrete.
macro_rules! block_end_indent {
    ($name:ident, $avx2:path) => {
        kernel!($name, $avx2, {
            let s: usize = kani::any();
            let t: usize = kani::any();
            let mi: usize = kani::any();
            let c: u8 = kani::any();
            kani::assume(s <= 26 && t <= 3 && mi <= 26);
            let mut b = [b'x'; 50];
            b[1] = b'\n';
            let mut q = 0;
            while q < 26 {
                if q < s {
                    b[2 + q] = b' ';
                }
                q += 1;
            }
            b[2 + s] = c;
            b[44] = b'\n';
            q = 0;
            while q < 3 {
                if q < t {
                    b[45 + q] = b' ';
                }
                q += 1;
            }
            let got = simd::find_block_scalar_end(&b, 0, mi);
            let want = spec_block_end(&b, 0, mi);
            assert!(got == Some(want));
            kani::cover!(want == 45 && s == 20 && mi == 18);
            kani::cover!(want == 2 && s == 17 && mi == 19);
            kani::cover!(want == 50);
        });
    };
}
block_end_indent!(c16_block_end_indent_sse2, no);
block_end_indent!(c16_block_end_indent_avx2, yes);
block_end_deep!(c16_block_end_deep_n48_s0_sse2, 48, 0, no);
block_end_deep!(c16_block_end_deep_n48_s1_avx2, 48, 1, yes);
block_end!(c16_block_end_n40_s0_avx2, 40, 0, yes);
block_end!(c16_block_end_n40_s3_avx2, 40, 3, yes);
block_end!(c16_block_end_n66_s1_avx2, 66, 1, yes);
block_end!(c16_block_end_n40_s0_sse2, 40, 0, no);
block_end!(c16_block_end_n34_s2_sse2, 34, 2, no);
block_end!(c16_block_end_n20_s0_any, 20, 0, any_bool);
block_end!(c16_block_end_n12_s12_any, 12, 12, any_bool);

macro_rules! anchor {
    ($name:ident, $n:expr, $start:expr, $avx2:path) => {
        kernel!($name, $avx2, {
            let b: [u8; $n] = kani::any();
            let got = simd::parse_anchor_name(&b, $start);
            assert!(got == spec_anchor(&b, $start));
            kani::cover!(got == $n);
            kani::cover!(got > $start + 17 && got < $n && b[got] == b':');
        });
    };
}
anchor!(c16_anchor_n40_s0_avx2, 40, 0, yes);
anchor!(c16_anchor_n40_s1_avx2, 40, 1, yes);
anchor!(c16_anchor_n70_s2_avx2, 70, 2, yes);
anchor!(c16_anchor_n40_s0_sse2, 40, 0, no);
anchor!(c16_anchor_n20_s3_any, 20, 3, any_bool);

/// Bulk classifier: every mask bit, both widths, with and without the CR channel.
#[cfg(not(feature = "scalar-yaml"))]
macro_rules! classify {
    ($name:ident, $n:expr, $off:expr, $cr:expr, $avx2:path) => {
        #[kani::proof]
        #[kani::unwind(4)]
        #[kani::stub(succinctly::yaml::simd::x86::avx2_enabled, $avx2)]
        fn $name() {
            let b: [u8; $n] = kani::any();
            let got = simd::classify_yaml_chars::<$cr>(&b, $off);
            if $off + 16 > $n {
                assert!(got.is_none());
            } else {
                let c = got.unwrap();
                assert!(c.width == 16 || c.width == 32);
                assert!($off + c.width <= $n);
                let i: usize = kani::any();
                kani::assume(i < c.width);
                let x = b[$off + i];
                let bit = |m: u32| (m >> i) & 1 == 1;
                assert!(bit(c.newlines) == (x == b'\n'));
                assert!(bit(c.carriage_returns) == ($cr && x == b'\r'));
                assert!(bit(c.colons) == (x == b':'));
                assert!(bit(c.hyphens) == (x == b'-'));
                assert!(bit(c.spaces) == (x == b' '));
                assert!(bit(c.quotes_double) == (x == b'"'));
                assert!(bit(c.quotes_single) == (x == b'\''));
                assert!(bit(c.backslashes) == (x == b'\\'));
                assert!(bit(c.hash) == (x == b'#'));
                let t = c.plain_scalar_terminators::<$cr>();
                assert!(((t >> i) & 1 == 1) == (x == b'\n' || x == b':' || x == b'#' || ($cr && x == b'\r')));
                if c.width == 16 {
                    // only the low `width` bits are meaningful; they must also be clean above
                    assert!(c.newlines >> 16 == 0 && c.colons >> 16 == 0 && c.spaces >> 16 == 0);
                }
                kani::cover!(c.width == 32 && i == 31);
                kani::cover!(c.width == 16 && i == 15);
            }
        }
    };
}
#[cfg(not(feature = "scalar-yaml"))]
classify!(c16_classify_n40_o0_cr_any, 40, 0, true, any_bool);
#[cfg(not(feature = "scalar-yaml"))]
classify!(c16_classify_n40_o8_nocr_any, 40, 8, false, any_bool);
#[cfg(not(feature = "scalar-yaml"))]
classify!(c16_classify_n48_o9_cr_any, 48, 9, true, any_bool);
#[cfg(not(feature = "scalar-yaml"))]
classify!(c16_classify_n40_o25_cr_any, 40, 25, true, any_bool);

kernel!(c16_witness_must_fail, yes, {
    let b: [u8; 40] = kani::any();
    // wrong on purpose: claims CR is not a line break for block scalars
    let got = simd::find_block_scalar_end(&b, 0, 2);
    let mut pos = 0;
    let mut want = 40;
    while pos < 40 {
        if b[pos] == b'\n' && pos + 1 < 40 && b[pos + 1] != b' ' && b[pos + 1] != b'\n' {
            want = pos + 1;
            break;
        }
        pos += 1;
    }
    assert!(got == Some(want));
});

//! C12 — line/column mapping is exact and independent of query history.

use crate::models;
use crate::stubs::{any_bool, no, yes};
use succinctly::text::LineIndex;

/// Naive scan: (line, column) of `off` where LF, CR and CRLF are single breaks
/// and a break at the very end of the text starts no line. Offsets past the end
/// stay on the last line.
fn spec_lc(t: &[u8], off: usize) -> (usize, usize) {
    let mut line = 1usize;
    let mut start = 0usize;
    let mut i = 0;
    while i < t.len() {
        let w = if t[i] == b'\n' {
            1
        } else if t[i] == b'\r' {
            if i + 1 < t.len() && t[i + 1] == b'\n' {
                2
            } else {
                1
            }
        } else {
            0
        };
        if w == 0 {
            i += 1;
            continue;
        }
        i += w;
        if i < t.len() && i <= off {
            line += 1;
            start = i;
        }
    }
    (line, off - start + 1)
}

/// Naive inverse: offset of (line, column), None when column is 0, the line
/// does not exist, or the offset is not inside the text.
fn spec_off(t: &[u8], line: usize, col: usize) -> Option<usize> {
    if col == 0 || line == 0 {
        return None;
    }
    let mut cur = 1usize;
    let mut start = 0usize;
    let mut i = 0;
    while i < t.len() && cur < line {
        let w = if t[i] == b'\n' {
            1
        } else if t[i] == b'\r' {
            if i + 1 < t.len() && t[i + 1] == b'\n' {
                2
            } else {
                1
            }
        } else {
            0
        };
        if w == 0 {
            i += 1;
            continue;
        }
        i += w;
        if i < t.len() {
            cur += 1;
            start = i;
        }
    }
    if cur != line {
        return None;
    }
    let o = start + col - 1;
    if o < t.len() {
        Some(o)
    } else {
        None
    }
}

/// Symbolic text: history (q1; q2; q2) plus the inverse mapping.
macro_rules! text_len {
    ($name:ident, $n:expr) => {
        #[kani::proof]
        #[kani::unwind(8)]
        #[kani::stub(succinctly::util::simd::x86::has_fast_bmi2, no)]
        #[kani::stub(std_detect::detect::__is_feature_detected::avx2, yes)]
        #[kani::stub(core::arch::x86_64::_mm256_shuffle_epi8, models::mm256_shuffle_epi8)]
        #[kani::stub(core::arch::x86_64::_mm256_sad_epu8, models::mm256_sad_epu8)]
        fn $name() {
            let t: [u8; $n] = kani::any();
            let li = LineIndex::build(&t);
            let q1: usize = kani::any();
            let q2: usize = kani::any();
            kani::assume(q1 <= $n + 2 && q2 <= $n + 2);
            let a1 = li.to_line_column(q1);
            let a2 = li.to_line_column(q2);
            let a3 = li.to_line_column(q2);
            assert!(a1 == spec_lc(&t, q1));
            assert!(a2 == spec_lc(&t, q2));
            assert!(a3 == a2);
            // inverse mapping and round trip of in-bounds offsets
            if q2 < $n {
                assert!(li.to_offset(a2.0, a2.1) == Some(q2));
            }
            let l: usize = kani::any();
            let c: usize = kani::any();
            kani::assume(l <= $n + 2 && c <= $n + 2);
            assert!(li.to_offset(l, c) == spec_off(&t, l, c));
            assert!(li.text_len() == $n);
            kani::cover!(a2.0 == $n && q1 > q2);
            kani::cover!(a1.0 == 2 && a2.0 == 1);
            core::mem::forget(li);
        }
    };
}
text_len!(c12_text_len0, 0);
text_len!(c12_text_len1, 1);
text_len!(c12_text_len2, 2);
text_len!(c12_text_len3, 3);
text_len!(c12_text_len4, 4);
text_len!(c12_text_len5, 5);

/// Concrete multi-line skeletons: every pair of queries (forward walks shorter
/// and longer than the 16-line cap, backward jumps, repeats, past-the-end).
const SK20: &[u8] = b"a\nbb\r\nc\rdd\n\nee\r\n\rf\ngg\nh\r\nii\nj\rk\nll\nm\r\nn\no\rpp\nq";
const SK40: &[u8] = b"a\nb\nc\r\nd\re\n\nf\ng\r\n\r\nh\ni\rj\nk\nl\nm\r\nn\no\np\rq\nr\ns\n\nt\r\nu\nv\nw\rx\ny\nz\nA\r\nB\nC\nD\rE\nF\nG\nH";

macro_rules! skeleton {
    ($name:ident, $text:expr) => {
        #[kani::proof]
        #[kani::unwind(8)]
        #[kani::stub(succinctly::util::simd::x86::has_fast_bmi2, no)]
        #[kani::stub(std_detect::detect::__is_feature_detected::avx2, yes)]
        #[kani::stub(core::arch::x86_64::_mm256_shuffle_epi8, models::mm256_shuffle_epi8)]
        #[kani::stub(core::arch::x86_64::_mm256_sad_epu8, models::mm256_sad_epu8)]
        fn $name() {
            let t: &[u8] = $text;
            let li = LineIndex::build(t);
            let q1: usize = kani::any();
            let q2: usize = kani::any();
            kani::assume(q1 <= t.len() + 3 && q2 <= t.len() + 3);
            let a1 = li.to_line_column(q1);
            let a2 = li.to_line_column(q2);
            let a3 = li.to_line_column(q2);
            assert!(a1 == spec_lc(t, q1));
            assert!(a2 == spec_lc(t, q2));
            assert!(a3 == a2);
            if q2 < t.len() {
                assert!(li.to_offset(a2.0, a2.1) == Some(q2));
            }
            kani::cover!(a2.0 > a1.0 + 17); // forward walk past the 16-line cap
            kani::cover!(a2.0 == a1.0 + 16);
            kani::cover!(a2.0 + 5 < a1.0); // backward jump
            core::mem::forget(li);
        }
    };
}
skeleton!(c12_skeleton_20, SK20);
skeleton!(c12_skeleton_40, SK40);

#[kani::proof]
#[kani::unwind(8)]
#[kani::stub(succinctly::util::simd::x86::has_fast_bmi2, no)]
#[kani::stub(std_detect::detect::__is_feature_detected::avx2, yes)]
#[kani::stub(core::arch::x86_64::_mm256_shuffle_epi8, models::mm256_shuffle_epi8)]
#[kani::stub(core::arch::x86_64::_mm256_sad_epu8, models::mm256_sad_epu8)]
fn c12_witness_must_fail() {
    let t: [u8; 3] = kani::any();
    let li = LineIndex::build(&t);
    let q: usize = kani::any();
    kani::assume(q <= 3);
    // wrong on purpose: claims a lone CR never breaks a line
    let lf_only = {
        let mut n = 1;
        let mut i = 0;
        while i < 3 {
            if t[i] == b'\n' && i + 1 < 3 && i + 1 <= q {
                n += 1;
            }
            i += 1;
        }
        n
    };
    assert!(li.to_line_column(q).0 == lf_only);
    core::mem::forget(li);
}

//! C12 — line/column mapping is exact and independent of query history.

use crate::models;
use crate::stubs::{any_bool, no, yes};
use succinctly::bits::EliasFano;
use succinctly::text::LineIndex;

// ---- the monotone-sequence container, by specification ------------------------------------
//
// `LineIndex` stores its line starts in an `EliasFano` and only ever calls
// `build`, `get`, `predecessor` and `len` on it. C03 decides that those answer
// exactly like the plain sequence. `LineIndex::build` on symbolic text hands
// `EliasFano::build` a symbolic NUMBER of elements (symbolic bit widths and array
// sizes), which the bounded model checker cannot encode (one `build` of a single
// element is already 4.5 M SAT variables). So in this property the container is
// replaced by its specification: the values are recorded in a harness-side array
// and the three queries answer from it. What is decided here is everything
// `LineIndex` itself does: line-start computation (LF / CR / CRLF), the
// one-entry cache, the capped forward walk, the inverse mapping.
const CAP: usize = 48;
static mut SEQ: [u32; CAP] = [0; CAP];
static mut SEQ_LEN: usize = 0;

fn ef_build(values: &[u32]) -> EliasFano {
    assert!(values.len() <= CAP);
    unsafe {
        let mut i = 0;
        while i < values.len() {
            // the real constructor requires a non-decreasing input
            assert!(i == 0 || values[i - 1] <= values[i]);
            SEQ[i] = values[i];
            i += 1;
        }
        SEQ_LEN = values.len();
        // never dereferenced: every accessor LineIndex uses is answered from SEQ
        core::mem::MaybeUninit::<EliasFano>::zeroed().assume_init()
    }
}
fn ef_get(_ef: &EliasFano, i: usize) -> Option<u32> {
    unsafe {
        if i < SEQ_LEN {
            Some(SEQ[i])
        } else {
            None
        }
    }
}
fn ef_len(_ef: &EliasFano) -> usize {
    unsafe { SEQ_LEN }
}
/// Last index holding the largest element <= v.
fn ef_predecessor(_ef: &EliasFano, v: u32) -> Option<(usize, u32)> {
    unsafe {
        let mut best = None;
        let mut i = 0;
        while i < SEQ_LEN {
            if SEQ[i] <= v {
                best = Some((i, SEQ[i]));
            }
            i += 1;
        }
        best
    }
}

/// Naive scan: (line, column) of `off` where LF, CR and CRLF are single breaks
/// and a break at the very end of the text starts no line. Offsets past the end
/// stay on the last line.
fn spec_lc(t: &[u8], off: usize) -> (usize, usize) {
    let mut line = 1usize;
    let mut start = 0usize;
    let mut i = 0;
    while i < t.len() {
        let w = if t[i] == b'\n' {
            1
        } else if t[i] == b'\r' {
            if i + 1 < t.len() && t[i + 1] == b'\n' {
                2
            } else {
                1
            }
        } else {
            0
        };
        if w == 0 {
            i += 1;
            continue;
        }
        i += w;
        if i < t.len() && i <= off {
            line += 1;
            start = i;
        }
    }
    (line, off - start + 1)
}

/// Naive inverse: offset of (line, column), None when column is 0, the line
/// does not exist, or the offset is not inside the text.
fn spec_off(t: &[u8], line: usize, col: usize) -> Option<usize> {
    if col == 0 || line == 0 {
        return None;
    }
    let mut cur = 1usize;
    let mut start = 0usize;
    let mut i = 0;
    while i < t.len() && cur < line {
        let w = if t[i] == b'\n' {
            1
        } else if t[i] == b'\r' {
            if i + 1 < t.len() && t[i + 1] == b'\n' {
                2
            } else {
                1
            }
        } else {
            0
        };
        if w == 0 {
            i += 1;
            continue;
        }
        i += w;
        if i < t.len() {
            cur += 1;
            start = i;
        }
    }
    if cur != line {
        return None;
    }
    let o = start + col - 1;
    if o < t.len() {
        Some(o)
    } else {
        None
    }
}

/// Symbolic text, part 1: every query history (q1; q2; q2) of to_line_column.
macro_rules! text_len {
    ($name:ident, $n:expr) => {
        #[kani::proof]
        #[kani::stub(alloc::vec::Vec::push, crate::stubs::push_no_grow)]
        #[kani::unwind(8)]
        #[kani::stub(succinctly::bits::EliasFano::build, ef_build)]
        #[kani::stub(succinctly::bits::EliasFano::get, ef_get)]
        #[kani::stub(succinctly::bits::EliasFano::predecessor, ef_predecessor)]
        #[kani::stub(succinctly::bits::EliasFano::len, ef_len)]
        fn $name() {
            let t: [u8; $n] = kani::any();
            let li = LineIndex::build(&t);
            let q1: usize = kani::any();
            let q2: usize = kani::any();
            kani::assume(q1 <= $n + 2 && q2 <= $n + 2);
            let a1 = li.to_line_column(q1);
            let a2 = li.to_line_column(q2);
            let a3 = li.to_line_column(q2);
            assert!(a1 == spec_lc(&t, q1));
            assert!(a2 == spec_lc(&t, q2));
            assert!(a3 == a2);
            assert!(li.text_len() == $n);
            kani::cover!($n < 2 || (a2.0 >= 2 && q1 > q2));
            kani::cover!($n < 2 || (a1.0 == 2 && a2.0 == 1));
            core::mem::forget(li);
        }
    };
}
text_len!(c12_text_len0, 0);
text_len!(c12_text_len1, 1);
text_len!(c12_text_len2, 2);
text_len!(c12_text_len3, 3);
text_len!(c12_text_len4, 4);
text_len!(c12_text_len5, 5);
text_len!(c12_text_len6, 6);
text_len!(c12_text_len8, 8);

/// Symbolic text, part 2: the inverse mapping and the round trip of in-bounds
/// offsets, after an arbitrary earlier query (so the cache is in any state).
macro_rules! text_inverse {
    ($name:ident, $n:expr) => {
        #[kani::proof]
        #[kani::stub(alloc::vec::Vec::push, crate::stubs::push_no_grow)]
        #[kani::unwind(8)]
        #[kani::stub(succinctly::bits::EliasFano::build, ef_build)]
        #[kani::stub(succinctly::bits::EliasFano::get, ef_get)]
        #[kani::stub(succinctly::bits::EliasFano::predecessor, ef_predecessor)]
        #[kani::stub(succinctly::bits::EliasFano::len, ef_len)]
        fn $name() {
            let t: [u8; $n] = kani::any();
            let li = LineIndex::build(&t);
            let q: usize = kani::any();
            kani::assume(q < $n);
            let a = li.to_line_column(q);
            assert!(li.to_offset(a.0, a.1) == Some(q));
            let l: usize = kani::any();
            let c: usize = kani::any();
            kani::assume(l <= $n + 2 && c <= $n + 2);
            assert!(li.to_offset(l, c) == spec_off(&t, l, c));
            assert!(li.line_count() == spec_lc(&t, $n + 5).0);
            kani::cover!(l == 2 && c == 1 && li.to_offset(l, c).is_some());
            core::mem::forget(li);
        }
    };
}
text_inverse!(c12_inverse_len3, 3);
text_inverse!(c12_inverse_len5, 5);
text_inverse!(c12_inverse_len7, 7);

/// Concrete multi-line skeletons: every pair of queries (forward walks shorter
/// and longer than the 16-line cap, backward jumps, repeats, past-the-end).
const SK20: &[u8] = b"a\nbb\r\nc\rdd\n\nee\r\n\rf\ngg\nh\r\nii\nj\rk\nll\nm\r\nn\no\rpp\nq";
const SK40: &[u8] = b"a\nb\nc\r\nd\re\n\nf\ng\r\n\r\nh\ni\rj\nk\nl\nm\r\nn\no\np\rq\nr\ns\n\nt\r\nu\nv\nw\rx\ny\nz\nA\r\nB\nC\nD\rE\nF\nG\nH";

macro_rules! skeleton {
    ($name:ident, $text:expr) => {
        #[kani::proof]
        #[kani::stub(alloc::vec::Vec::push, crate::stubs::push_no_grow)]
        #[kani::unwind(8)]
        #[kani::stub(succinctly::bits::EliasFano::build, ef_build)]
        #[kani::stub(succinctly::bits::EliasFano::get, ef_get)]
        #[kani::stub(succinctly::bits::EliasFano::predecessor, ef_predecessor)]
        #[kani::stub(succinctly::bits::EliasFano::len, ef_len)]
        fn $name() {
            let t: &[u8] = $text;
            let li = LineIndex::build(t);
            let q1: usize = kani::any();
            let q2: usize = kani::any();
            kani::assume(q1 <= t.len() + 3 && q2 <= t.len() + 3);
            let a1 = li.to_line_column(q1);
            let a2 = li.to_line_column(q2);
            let a3 = li.to_line_column(q2);
            assert!(a1 == spec_lc(t, q1));
            assert!(a2 == spec_lc(t, q2));
            assert!(a3 == a2);
            if q2 < t.len() {
                assert!(li.to_offset(a2.0, a2.1) == Some(q2));
            }
            kani::cover!(a2.0 > a1.0 + 17); // forward walk past the 16-line cap
            kani::cover!(a2.0 == a1.0 + 16);
            kani::cover!(a2.0 + 5 < a1.0); // backward jump
            core::mem::forget(li);
        }
    };
}
skeleton!(c12_skeleton_20, SK20);
skeleton!(c12_skeleton_40, SK40);

#[kani::proof]
#[kani::stub(alloc::vec::Vec::push, crate::stubs::push_no_grow)]
#[kani::unwind(8)]
#[kani::stub(succinctly::bits::EliasFano::build, ef_build)]
#[kani::stub(succinctly::bits::EliasFano::get, ef_get)]
#[kani::stub(succinctly::bits::EliasFano::predecessor, ef_predecessor)]
#[kani::stub(succinctly::bits::EliasFano::len, ef_len)]
fn c12_witness_must_fail() {
    let t: [u8; 3] = kani::any();
    let li = LineIndex::build(&t);
    let q: usize = kani::any();
    kani::assume(q <= 3);
    // wrong on purpose: claims a lone CR never breaks a line
    let lf_only = {
        let mut n = 1;
        let mut i = 0;
        while i < 3 {
            if t[i] == b'\n' && i + 1 < 3 && i + 1 <= q {
                n += 1;
            }
            i += 1;
        }
        n
    };
    assert!(li.to_line_column(q).0 == lf_only);
    core::mem::forget(li);
}


//! C31 — serialization round trip and alignment tolerance.

use succinctly::binary;

/// words -> bytes -> words is the identity (all three decoders), for every
/// word vector of N words (N concrete per harness: the owned decoder allocates).
macro_rules! roundtrip {
    ($name:ident, $n:expr) => {
        #[kani::proof]
        #[kani::unwind(10)]
        fn $name() {
            let w: [u64; $n] = kani::any();
            let bytes = binary::words_to_bytes(&w);
            assert!(bytes.len() == 8 * $n);
            // byte k of the encoding is byte k%8 (native order) of word k/8
            let k: usize = kani::any();
            if k < 8 * $n {
                assert!(bytes[k] == w[k / 8].to_ne_bytes()[k % 8]);
            }
            let back = binary::bytes_to_words(bytes);
            assert!(back.len() == $n);
            let t = binary::try_bytes_to_words(bytes);
            assert!(t.is_some());
            let v = binary::bytes_to_words_vec(bytes);
            assert!(v.len() == $n);
            let i: usize = kani::any();
            if i < $n {
                assert!(back[i] == w[i]);
                assert!(t.unwrap()[i] == w[i]);
                assert!(v[i] == w[i]);
            }
            kani::cover!($n == 0 || i == $n - 1);
            core::mem::forget(v);
        }
    };
}
roundtrip!(c31_roundtrip_0, 0);
roundtrip!(c31_roundtrip_1, 1);
roundtrip!(c31_roundtrip_2, 2);
roundtrip!(c31_roundtrip_4, 4);

/// A byte slice taken at offset O inside an 8-aligned buffer (one harness per
/// concrete O: CBMC decides the alignment test of a pointer only for concrete
/// offsets): the copying decoder must succeed for every multiple-of-8 length
/// and return the words those bytes spell.
macro_rules! vec_off {
    ($name:ident, $o:expr, $nw:expr) => {
        #[kani::proof]
        #[kani::unwind(10)]
        fn $name() {
            let backing: [u64; 4] = kani::any();
            let all: &[u8] = binary::words_to_bytes(&backing);
            let s = &all[$o..$o + 8 * $nw];
            let v = binary::bytes_to_words_vec(s);
            assert!(v.len() == $nw);
            let i: usize = kani::any();
            if i < $nw {
                let mut b = [0u8; 8];
                let mut j = 0;
                while j < 8 {
                    b[j] = s[8 * i + j];
                    j += 1;
                }
                assert!(v[i] == u64::from_ne_bytes(b));
            }
            kani::cover!($nw == 0 || i == $nw - 1);
            core::mem::forget(v);
        }
    };
}
vec_off!(c31_vec_off0, 0, 2);
vec_off!(c31_vec_off1, 1, 2);
vec_off!(c31_vec_off2, 2, 2);
vec_off!(c31_vec_off3, 3, 3);
vec_off!(c31_vec_off4, 4, 2);
vec_off!(c31_vec_off5, 5, 1);
vec_off!(c31_vec_off6, 6, 2);
vec_off!(c31_vec_off7, 7, 3);
vec_off!(c31_vec_off0_empty, 0, 0);
vec_off!(c31_vec_off5_empty, 5, 0);

/// Zero-copy decoders on an aligned slice, every length 0..=24: the fallible
/// form is None exactly for lengths that are not a multiple of 8 and never
/// panics; the infallible form succeeds for good lengths.
#[kani::proof]
#[kani::unwind(40)]
fn c31_zero_copy_aligned() {
    let backing: [u64; 3] = kani::any();
    let all: &[u8] = binary::words_to_bytes(&backing);
    let len: usize = kani::any();
    kani::assume(len <= 24);
    let s = &all[..len];
    let t = binary::try_bytes_to_words(s);
    assert!(t.is_some() == (len % 8 == 0));
    if len % 8 == 0 {
        let w = binary::bytes_to_words(s);
        assert!(w.len() == len / 8);
        let i: usize = kani::any();
        kani::assume(i < len / 8);
        assert!(w[i] == backing[i] && t.unwrap()[i] == backing[i]);
    }
    kani::cover!(len == 24);
    kani::cover!(len == 7);
}

/// Zero-copy decoders on a slice that starts at a non-8-aligned address
/// (offset O of an aligned buffer). Registered as known finding
/// C31-misaligned-zero-copy: bytemuck::cast_slice panics on it.
macro_rules! zero_copy_off {
    ($name:ident, $o:expr) => {
        #[kani::proof]
        #[kani::unwind(40)]
        fn $name() {
            let backing: [u64; 3] = kani::any();
            let all: &[u8] = binary::words_to_bytes(&backing);
            let len: usize = kani::any();
            kani::assume(len <= 16);
            let s = &all[$o..$o + len];
            let t = binary::try_bytes_to_words(s);
            assert!(t.is_some() == (len % 8 == 0));
            if len % 8 == 0 {
                let w = binary::bytes_to_words(s);
                assert!(w.len() == len / 8);
            }
        }
    };
}
zero_copy_off!(c31_zero_copy_off1, 1);
zero_copy_off!(c31_zero_copy_off4, 4);
zero_copy_off!(c31_zero_copy_off7, 7);

/// The bad-length half holds at every offset: a length that is not a multiple
/// of 8 gives None without panicking.
macro_rules! badlen_off {
    ($name:ident, $o:expr) => {
        #[kani::proof]
        #[kani::unwind(40)]
        fn $name() {
            let backing: [u64; 3] = kani::any();
            let all: &[u8] = binary::words_to_bytes(&backing);
            let len: usize = kani::any();
            kani::assume(len <= 16 && len % 8 != 0);
            let s = &all[$o..$o + len];
            assert!(binary::try_bytes_to_words(s).is_none());
            kani::cover!(len == 15);
        }
    };
}
badlen_off!(c31_badlen_off0, 0);
badlen_off!(c31_badlen_off3, 3);

#[kani::proof]
#[kani::unwind(40)]
fn c31_witness_must_fail() {
    let w: [u64; 2] = kani::any();
    let bytes = binary::words_to_bytes(&w);
    // wrong on purpose: big-endian layout claimed
    assert!(bytes[0] == w[0].to_be_bytes()[0]);
}

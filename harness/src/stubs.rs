//! Dispatch stubs: runtime CPU-feature probes become solver-chosen booleans.
#![cfg(kani)]

pub fn yes() -> bool {
    true
}
pub fn no() -> bool {
    false
}
/// A feature probe whose answer the solver picks. Every probe in the
/// repository caches its first answer in a static, so one harness run sees
/// one consistent hardware configuration per probe site.
pub fn any_bool() -> bool {
    kani::any()
}

/// Loop-free contract of `select_in_word`, used where a harness treats the
/// in-word select as already decided (C02 discharges `select_in_word ==
/// spec::select_in_word` for every word and every k on every dispatch path).
/// The result is the unique r with bit r set and exactly k set bits below it,
/// or 64 when there are at most k set bits.
pub fn select_in_word_contract(x: u64, k: u32) -> u32 {
    if k >= x.count_ones() {
        return 64;
    }
    let r: u32 = kani::any();
    kani::assume(r < 64);
    kani::assume((x >> r) & 1 == 1);
    kani::assume((x & ((1u64 << r) - 1)).count_ones() == k);
    r
}

/// Specification-level stand-in for `bits::scan_select` (prologue + block loop +
/// tail), used where a harness treats the shared scan as already decided: C01
/// shows `scan_select == this prefix-sum scan` for every content of up to 27
/// words on both block-popcount paths. One plain loop, no SIMD kernel.
pub fn scan_select_model(words: &[u64], start_word: usize, remaining: usize) -> Option<(usize, usize)> {
    if start_word >= words.len() {
        return None;
    }
    let mut rem = remaining;
    let mut i = start_word;
    while i < words.len() {
        let pop = words[i].count_ones() as usize;
        if pop > rem {
            return Some((i, rem));
        }
        rem -= pop;
        i += 1;
    }
    None
}

/// `Vec::push` without the growth path. CBMC cannot see that a vector created
/// with `with_capacity(n)` never outgrows it, so every `push` drags in
/// `RawVec::grow_one` -> `realloc` and turns the buffer pointer into a choice
/// between allocations; reading the result back then costs > 12 GB (measured:
/// one JSON builder on 7 bytes, 174 k steps / out of memory vs 29 k steps / 5 s).
/// This stand-in pushes in place and ASSERTS that the capacity suffices, so a
/// push that would need to grow is a reported failure, never silently dropped.
pub fn push_no_grow<T, A: core::alloc::Allocator>(v: &mut Vec<T, A>, x: T) {
    assert!(v.len() < v.capacity(), "push would grow the vector");
    unsafe {
        let l = v.len();
        core::ptr::write(v.as_mut_ptr().add(l), x);
        v.set_len(l + 1);
    }
}

/// `Vec::with_capacity` with a constant capacity. A capacity that depends on the
/// data (e.g. `total_ones / rate + 1`) makes the allocation size symbolic, which
/// the bounded model checker cannot encode. Capacity is not observable through
/// `Vec`'s API (growth is transparent), so over-allocating a constant preserves
/// behaviour; the request is asserted to fit.
pub fn with_capacity_const<T>(cap: usize) -> Vec<T> {
    assert!(cap <= CONST_CAP, "requested capacity exceeds the harness constant");
    Vec::with_capacity_in(CONST_CAP, std::alloc::Global)
}
pub const CONST_CAP: usize = 240;

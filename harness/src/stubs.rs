//! Dispatch stubs: runtime CPU-feature probes become solver-chosen booleans.
#![cfg(kani)]

pub fn yes() -> bool {
    true
}
pub fn no() -> bool {
    false
}
/// A feature probe whose answer the solver picks. Every probe in the
/// repository caches its first answer in a static, so one harness run sees
/// one consistent hardware configuration per probe site.
pub fn any_bool() -> bool {
    kani::any()
}

//! Dispatch stubs: runtime CPU-feature probes become solver-chosen booleans.
#![cfg(kani)]

pub fn yes() -> bool {
    true
}
pub fn no() -> bool {
    false
}
/// A feature probe whose answer the solver picks. Every probe in the
/// repository caches its first answer in a static, so one harness run sees
/// one consistent hardware configuration per probe site.
pub fn any_bool() -> bool {
    kani::any()
}

/// Loop-free contract of `select_in_word`, used where a harness treats the
/// in-word select as already decided (C02 discharges `select_in_word ==
/// spec::select_in_word` for every word and every k on every dispatch path).
/// The result is the unique r with bit r set and exactly k set bits below it,
/// or 64 when there are at most k set bits.
pub fn select_in_word_contract(x: u64, k: u32) -> u32 {
    if k >= x.count_ones() {
        return 64;
    }
    let r: u32 = kani::any();
    kani::assume(r < 64);
    kani::assume((x >> r) & 1 == 1);
    kani::assume((x & ((1u64 << r) - 1)).count_ones() == k);
    r
}

/// Specification-level stand-in for `bits::scan_select` (prologue + block loop +
/// tail), used where a harness treats the shared scan as already decided: C01
/// shows `scan_select == this prefix-sum scan` for every content of up to 27
/// words on both block-popcount paths. One plain loop, no SIMD kernel.
pub fn scan_select_model(words: &[u64], start_word: usize, remaining: usize) -> Option<(usize, usize)> {
    if start_word >= words.len() {
        return None;
    }
    let mut rem = remaining;
    let mut i = start_word;
    while i < words.len() {
        let pop = words[i].count_ones() as usize;
        if pop > rem {
            return Some((i, rem));
        }
        rem -= pop;
        i += 1;
    }
    None
}

//! C13 — UTF-8 validation matches the Unicode definition on every engine.

use crate::models;
use crate::stubs::{any_bool, no, yes};
use succinctly::text::utf8::{
    decode_code_point, encode_code_point, validate_utf8, validate_utf8_broadword, validate_utf8_scalar,
    validate_utf8_simd, Utf8Error, Utf8ErrorKind,
};

/// Stand-in for the private error constructor `err_at` inside the validator
/// harnesses: CBMC inlines it at each of the ~12 error sites of every unrolled
/// loop iteration, and its line/column loops dominate the encoding. The stub
/// records that the WHOLE input and the reported offset were passed on; the real
/// `err_at` (offset -> line/column) is decided separately in `c13_err_at_*`.
fn err_at_stub(input: &[u8], offset: usize, kind: Utf8ErrorKind) -> Utf8Error {
    Utf8Error { offset, line: input.len(), column: MARK, kind }
}
const MARK: usize = 0xC013;

fn cont(b: u8) -> bool {
    b >= 0x80 && b <= 0xBF
}

/// Length of the well-formed sequence starting at p per Unicode Table 3-7
/// ("Well-Formed UTF-8 Byte Sequences"), 0 if there is none.
fn wf_len(b: &[u8], p: usize) -> usize {
    let n = b.len();
    let b0 = b[p];
    let at = |i: usize| if p + i < n { Some(b[p + i]) } else { None };
    let c = |i: usize| matches!(at(i), Some(x) if cont(x));
    let r = |i: usize, lo: u8, hi: u8| matches!(at(i), Some(x) if x >= lo && x <= hi);
    match b0 {
        0x00..=0x7F => 1,
        0xC2..=0xDF => {
            if c(1) {
                2
            } else {
                0
            }
        }
        0xE0 => {
            if r(1, 0xA0, 0xBF) && c(2) {
                3
            } else {
                0
            }
        }
        0xE1..=0xEC | 0xEE..=0xEF => {
            if c(1) && c(2) {
                3
            } else {
                0
            }
        }
        0xED => {
            if r(1, 0x80, 0x9F) && c(2) {
                3
            } else {
                0
            }
        }
        0xF0 => {
            if r(1, 0x90, 0xBF) && c(2) && c(3) {
                4
            } else {
                0
            }
        }
        0xF1..=0xF3 => {
            if c(1) && c(2) && c(3) {
                4
            } else {
                0
            }
        }
        0xF4 => {
            if r(1, 0x80, 0x8F) && c(2) && c(3) {
                4
            } else {
                0
            }
        }
        _ => 0,
    }
}

/// Length of the longest prefix that is well-formed UTF-8 (== b.len() iff valid).
fn valid_up_to(b: &[u8]) -> usize {
    let mut p = 0;
    while p < b.len() {
        let l = wf_len(b, p);
        if l == 0 {
            return p;
        }
        p += l;
    }
    p
}

/// The violated rule for the ill-formed sequence starting at p, in the order the
/// error kinds are documented: bad lead, truncated, bad continuation (with the
/// position of the first offending byte), then code point bounds.
fn violated_rule(b: &[u8], p: usize) -> (Utf8ErrorKind, usize) {
    let b0 = b[p];
    let l = match b0 {
        0xC0..=0xDF => 2,
        0xE0..=0xEF => 3,
        0xF0..=0xF7 => 4,
        _ => return (Utf8ErrorKind::InvalidLeadByte, p),
    };
    if p + l > b.len() {
        return (Utf8ErrorKind::TruncatedSequence, p);
    }
    let mut i = 1;
    while i < l {
        if !cont(b[p + i]) {
            return (Utf8ErrorKind::InvalidContinuationByte, p + i);
        }
        i += 1;
    }
    let cp: u32 = match l {
        2 => ((b0 as u32 & 0x1F) << 6) | (b[p + 1] as u32 & 0x3F),
        3 => ((b0 as u32 & 0x0F) << 12) | ((b[p + 1] as u32 & 0x3F) << 6) | (b[p + 2] as u32 & 0x3F),
        _ => {
            ((b0 as u32 & 0x07) << 18)
                | ((b[p + 1] as u32 & 0x3F) << 12)
                | ((b[p + 2] as u32 & 0x3F) << 6)
                | (b[p + 3] as u32 & 0x3F)
        }
    };
    let min = match l {
        2 => 0x80,
        3 => 0x800,
        _ => 0x10000,
    };
    if cp < min {
        (Utf8ErrorKind::OverlongEncoding, p)
    } else if cp >= 0xD800 && cp <= 0xDFFF {
        (Utf8ErrorKind::SurrogateCodepoint, p)
    } else {
        (Utf8ErrorKind::OutOfRangeCodepoint, p)
    }
}

/// 1-based line (LF count) and column of a byte offset.
fn line_col(b: &[u8], off: usize) -> (usize, usize) {
    let mut line = 1;
    let mut start = 0;
    let mut i = 0;
    while i < off {
        if b[i] == b'\n' {
            line += 1;
            start = i + 1;
        }
        i += 1;
    }
    (line, off - start + 1)
}

/// What the property demands of one validator result, except the offset of
/// InvalidContinuationByte errors (known finding C13-continuation-offset,
/// decided separately below).
fn check_result(b: &[u8], r: &Result<(), Utf8Error>) {
    let v = valid_up_to(b);
    match r {
        Ok(()) => assert!(v == b.len()),
        Err(e) => {
            assert!(v < b.len());
            let (kind, at) = violated_rule(b, v);
            assert!(e.kind == kind);
            // documented position: the first offending byte
            assert!(e.offset == at);
            // the error was built from the whole input and this offset (see err_at_stub)
            assert!(e.line == b.len() && e.column == MARK);
            if kind != Utf8ErrorKind::InvalidContinuationByte {
                // property: the offset is the length of the longest valid prefix
                assert!(e.offset == v);
            }
        }
    }
}

fn same(a: &Result<(), Utf8Error>, b: &Result<(), Utf8Error>) -> bool {
    match (a, b) {
        (Ok(()), Ok(())) => true,
        (Err(x), Err(y)) => x.offset == y.offset && x.kind == y.kind && x.line == y.line && x.column == y.column,
        _ => false,
    }
}

macro_rules! scalar_len {
    ($name:ident, $n:expr) => {
        #[kani::proof]
        #[kani::unwind(10)]
        #[kani::stub(succinctly::text::utf8::err_at, err_at_stub)]
        fn $name() {
            let b: [u8; $n] = kani::any();
            let r = validate_utf8_scalar(&b);
            check_result(&b, &r);
            let w = validate_utf8_broadword(&b);
            assert!(same(&r, &w));
            kani::cover!(r.is_ok() && $n > 0 && b[0] >= 0xF0);
            kani::cover!(matches!(&r, Err(e) if e.kind == Utf8ErrorKind::SurrogateCodepoint));
            kani::cover!(matches!(&r, Err(e) if e.kind == Utf8ErrorKind::TruncatedSequence && e.offset + 1 < $n));
            core::mem::forget(r);
            core::mem::forget(w);
        }
    };
}
scalar_len!(c13_scalar_len4, 4);
scalar_len!(c13_scalar_len5, 5);
scalar_len!(c13_scalar_len6, 6);
scalar_len!(c13_scalar_len7, 7);
scalar_len!(c13_scalar_len8, 8);

#[kani::proof]
#[kani::unwind(10)]
#[kani::stub(succinctly::text::utf8::err_at, err_at_stub)]
fn c13_scalar_len0to3() {
    let b: [u8; 3] = kani::any();
    let n: usize = kani::any();
    kani::assume(n <= 3);
    let r = validate_utf8_scalar(&b[..n]);
    check_result(&b[..n], &r);
    let w = validate_utf8_broadword(&b[..n]);
    assert!(same(&r, &w));
    kani::cover!(n == 3 && r.is_ok() && b[0] == 0xE0);
    kani::cover!(n == 0);
    core::mem::forget(r);
    core::mem::forget(w);
}

/// Known finding C13-continuation-offset: for an ill-formed sequence whose lead
/// byte is acceptable but a later byte is not a continuation byte, the reported
/// offset is that later byte, not the length of the longest valid prefix.
#[kani::proof]
#[kani::unwind(10)]
#[kani::stub(succinctly::text::utf8::err_at, err_at_stub)]
fn c13_continuation_offset_is_valid_prefix() {
    let b: [u8; 4] = kani::any();
    let r = validate_utf8_scalar(&b);
    if let Err(e) = &r {
        if e.kind == Utf8ErrorKind::InvalidContinuationByte {
            assert!(e.offset == valid_up_to(&b));
        }
    }
    core::mem::forget(r);
}

/// Longer inputs: concrete filler (ASCII with LF / VT, or multi-byte
/// characters) with a symbolic window, so the 8-byte ASCII skipping of the
/// scalar validator and the word loop of line/column run.
macro_rules! fill_window {
    ($b:ident, $w:ident, $n:expr, $at:expr, $wl:expr, $filler:expr) => {
        let mut $b = [0u8; $n];
        let f: &[u8] = $filler;
        let mut i = 0;
        while i < $n {
            $b[i] = f[i % f.len()];
            i += 1;
        }
        let $w: [u8; $wl] = kani::any();
        let mut j = 0;
        while j < $wl {
            $b[$at + j] = $w[j];
            j += 1;
        }
    };
}
macro_rules! scalar_window {
    ($name:ident, $n:expr, $at:expr, $w:expr, $filler:expr) => {
        #[kani::proof]
        #[kani::unwind(10)]
        #[kani::stub(succinctly::text::utf8::err_at, err_at_stub)]
        fn $name() {
            fill_window!(b, w, $n, $at, $w, $filler);
            let r = validate_utf8_scalar(&b);
            check_result(&b, &r);
            kani::cover!(r.is_ok() && w[0] >= 0xE0);
            kani::cover!(matches!(&r, Err(e) if e.offset > $at));
            core::mem::forget(r);
        }
    };
}
/// Accept-kernel harness for the fast paths (broadword, AVX2). Both engines are
/// "kernel accepts ? Ok : scalar validator", so the engine result differs from the
/// scalar result only if the kernel accepts an ill-formed string. The kernels are
/// driven directly (verif-hooks), without the scalar fallback: accepted => the
/// input is well-formed (soundness, what the property needs) and well-formed =>
/// accepted (so the fast path is also complete on this bound).
macro_rules! kernel_window {
    ($name:ident, $n:expr, $at:expr, $w:expr, $filler:expr, $kernel:expr, $($stub:meta),*) => {
        #[kani::proof]
        #[kani::unwind(10)]
        $(#[$stub])*
        fn $name() {
            fill_window!(b, w, $n, $at, $w, $filler);
            let valid = valid_up_to(&b) == $n;
            let acc: bool = $kernel(&b);
            assert!(acc == valid);
            kani::cover!(acc && w[0] >= 0xE0);
            kani::cover!(!acc);
        }
    };
}
const ASCII_F: &[u8] = b"ab\ncd\x0b\nefghij\nklm";
const MULTI_F: &[u8] = "a\u{e9}\nb\u{4e2d}c\u{1f600}d\n".as_bytes();

scalar_window!(c13_scalar_win17_at9, 17, 9, 6, ASCII_F);
scalar_window!(c13_scalar_win20_at12, 20, 12, 6, ASCII_F);
scalar_window!(c13_scalar_win22_at10_multi, 22, 10, 4, MULTI_F);

fn bw(b: &[u8]) -> bool {
    succinctly::verif_hooks::utf8_broadword_accepts(b)
}
kernel_window!(c13_broadword_win41_at30, 41, 30, 6, ASCII_F, bw,);
kernel_window!(c13_broadword_win36_at0, 36, 0, 5, ASCII_F, bw,);
kernel_window!(c13_broadword_win12_at4, 12, 4, 6, ASCII_F, bw,);
kernel_window!(c13_broadword_win40_at5_multi, 40, 5, 4, MULTI_F, bw,);

fn avx2(b: &[u8]) -> bool {
    unsafe { succinctly::verif_hooks::utf8_avx2_accepts(b) }
}
macro_rules! avx2_window {
    ($name:ident, $n:expr, $at:expr, $w:expr, $filler:expr) => {
        kernel_window!($name, $n, $at, $w, $filler, avx2,
            kani::stub(core::arch::x86_64::_mm256_max_epu8, models::mm256_max_epu8),
            kani::stub(core::arch::x86_64::_mm256_testz_si256, models::mm256_testz_si256));
    };
}
avx2_window!(c13_avx2_win33_at27, 33, 27, 6, ASCII_F);
avx2_window!(c13_avx2_win36_at28, 36, 28, 8, ASCII_F);
avx2_window!(c13_avx2_win36_at30, 36, 30, 6, ASCII_F);
avx2_window!(c13_avx2_win34_at0, 34, 0, 6, ASCII_F);
avx2_window!(c13_avx2_win65_at60, 65, 60, 5, ASCII_F);
avx2_window!(c13_avx2_win40_at29_multi, 40, 29, 4, MULTI_F);
avx2_window!(c13_avx2_win8_at2, 8, 2, 6, ASCII_F);
avx2_window!(c13_avx2_win32_at24, 32, 24, 8, ASCII_F);
avx2_window!(c13_avx2_win40_at20_w16, 40, 20, 16, ASCII_F);
avx2_window!(c13_avx2_win66_at28, 66, 28, 8, ASCII_F);
avx2_window!(c13_avx2_win98_at58, 98, 58, 8, ASCII_F);
avx2_window!(c13_avx2_full33, 33, 0, 33, ASCII_F);
avx2_window!(c13_avx2_full66, 66, 0, 66, ASCII_F);

/// The dispatching wrappers add only "kernel accepts ? Ok : scalar": decided on
/// a short input where the whole composition fits.
#[kani::proof]
#[kani::unwind(10)]
#[kani::stub(succinctly::text::utf8::err_at, err_at_stub)]
#[kani::stub(std_detect::detect::__is_feature_detected::avx2, any_bool)]
#[kani::stub(core::arch::x86_64::_mm256_max_epu8, models::mm256_max_epu8)]
#[kani::stub(core::arch::x86_64::_mm256_testz_si256, models::mm256_testz_si256)]
fn c13_dispatch_len4() {
    let b: [u8; 4] = kani::any();
    let r = validate_utf8_scalar(&b);
    let d = validate_utf8(&b);
    let s = validate_utf8_simd(&b);
    assert!(same(&r, &d));
    assert!(same(&r, &s));
    kani::cover!(r.is_ok() && b[0] >= 0xF0);
    kani::cover!(r.is_err());
    core::mem::forget(r);
    core::mem::forget(d);
    core::mem::forget(s);
}

/// encode/decode of single code points: every u32.
#[kani::proof]
#[kani::unwind(6)]
fn c13_codepoint_roundtrip() {
    let cp: u32 = kani::any();
    let scalar = cp <= 0x10FFFF && !(cp >= 0xD800 && cp <= 0xDFFF);
    match encode_code_point(cp) {
        None => assert!(!scalar),
        Some((buf, len)) => {
            assert!(scalar);
            let want = if cp < 0x80 {
                1
            } else if cp < 0x800 {
                2
            } else if cp < 0x10000 {
                3
            } else {
                4
            };
            assert!(len == want);
            assert!(decode_code_point(&buf[..len]) == Some((cp, len)));
            // the encoding is well-formed UTF-8 of exactly that length
            assert!(wf_len(&buf[..len], 0) == len);
            let r = validate_utf8_scalar(&buf[..len]);
            assert!(r.is_ok());
            core::mem::forget(r);
        }
    }
    kani::cover!(cp == 0x10FFFF);
    kani::cover!(cp == 0xD7FF);
}

/// decode_code_point accepts exactly one well-formed sequence at the front.
#[kani::proof]
#[kani::unwind(6)]
fn c13_decode_matches_table() {
    let b: [u8; 4] = kani::any();
    let n: usize = kani::any();
    kani::assume(n <= 4);
    let d = decode_code_point(&b[..n]);
    let l = if n == 0 { 0 } else { wf_len(&b[..n], 0) };
    match d {
        None => assert!(l == 0),
        Some((cp, len)) => {
            assert!(len == l && l > 0);
            let e = encode_code_point(cp);
            assert!(matches!(e, Some((buf, el)) if el == len && buf[0] == b[0] && (len < 2 || buf[1] == b[1])
                && (len < 3 || buf[2] == b[2]) && (len < 4 || buf[3] == b[3])));
        }
    }
    kani::cover!(matches!(d, Some((_, 4))));
}

#[kani::proof]
#[kani::unwind(10)]
#[kani::stub(succinctly::text::utf8::err_at, err_at_stub)]
fn c13_witness_must_fail() {
    let b: [u8; 4] = kani::any();
    let r = validate_utf8_scalar(&b);
    // wrong on purpose: claims every string starting with 0xED 0xA0 is accepted or rejected as overlong
    if b[0] == 0xED && b[1] == 0xA0 && b[2] == 0x80 {
        assert!(matches!(&r, Err(e) if e.kind == Utf8ErrorKind::OverlongEncoding));
    }
    core::mem::forget(r);
}


/// The real error constructor: line (1 + LF count before the offset) and column
/// for every buffer of N bytes and every offset.
macro_rules! err_at_len {
    ($name:ident, $n:expr) => {
        #[kani::proof]
        #[kani::unwind(6)]
        fn $name() {
            let b: [u8; $n] = kani::any();
            let off: usize = kani::any();
            kani::assume(off <= $n);
            let e = succinctly::verif_hooks::utf8_err_at(&b, off, Utf8ErrorKind::InvalidLeadByte);
            let (l, c) = line_col(&b, off);
            assert!(e.offset == off && e.line == l && e.column == c);
            assert!(e.kind == Utf8ErrorKind::InvalidLeadByte);
            kani::cover!(l > 2 && c > 1);
            kani::cover!(off == $n && l == 1);
        }
    };
}
err_at_len!(c13_err_at_len7, 7);
err_at_len!(c13_err_at_len17, 17);
err_at_len!(c13_err_at_len26, 26);

//! C09 — JSON string escaping round-trips and escapes exactly the required set.

use crate::models;
use crate::stubs::{any_bool, no, yes};
use core::fmt::Write;
use succinctly::jq::escape::{
    write_json_body_jq, write_json_body_jq_ascii, write_json_body_yq, write_json_body_yq_ascii,
};
use succinctly::verif_hooks::find_json_escape;

// ---- the vectorised escape scanner ------------------------------------------------------

fn first_escape(b: &[u8], start: usize) -> usize {
    let mut i = start;
    while i < b.len() {
        let x = b[i];
        if x == b'"' || x == b'\\' || x < 0x20 {
            return i;
        }
        i += 1;
    }
    b.len()
}

macro_rules! scan {
    ($name:ident, $n:expr, $start:expr, $avx2:path) => {
        #[kani::proof]
        #[kani::unwind(4)]
        #[kani::stub(succinctly::util::simd::escape::avx2_enabled, $avx2)]
        #[kani::stub(core::arch::x86_64::_mm256_subs_epu8, models::mm256_subs_epu8)]
        #[kani::stub(core::arch::x86_64::_mm_subs_epu8, models::mm_subs_epu8)]
        fn $name() {
            let b: [u8; $n] = kani::any();
            let got = find_json_escape(&b, $start);
            assert!(got == first_escape(&b, $start));
            kani::cover!($start >= $n || got == $n);
            kani::cover!($start >= $n || got == $n - 1);
        }
    };
}
// AVX2 path: 32-byte chunk(s), one 16-byte chunk, scalar tail
scan!(c09_scan_avx2_n40_s0, 40, 0, yes);
scan!(c09_scan_avx2_n40_s1, 40, 1, yes);
scan!(c09_scan_avx2_n40_s7, 40, 7, yes);
scan!(c09_scan_avx2_n40_s8, 40, 8, yes);
scan!(c09_scan_avx2_n40_s9, 40, 9, yes);
scan!(c09_scan_avx2_n40_s24, 40, 24, yes);
scan!(c09_scan_avx2_n40_s25, 40, 25, yes);
scan!(c09_scan_avx2_n40_s39, 40, 39, yes);
scan!(c09_scan_avx2_n40_s40, 40, 40, yes);
scan!(c09_scan_avx2_n40_s41, 40, 41, yes);
scan!(c09_scan_avx2_n33_s0, 33, 0, yes);
scan!(c09_scan_avx2_n32_s0, 32, 0, yes);
scan!(c09_scan_avx2_n31_s0, 31, 0, yes);
scan!(c09_scan_avx2_n17_s0, 17, 0, yes);
scan!(c09_scan_avx2_n16_s0, 16, 0, yes);
scan!(c09_scan_avx2_n15_s0, 15, 0, yes);
scan!(c09_scan_avx2_n70_s3, 70, 3, yes);
// SSE2 path
scan!(c09_scan_sse2_n40_s0, 40, 0, no);
scan!(c09_scan_sse2_n40_s5, 40, 5, no);
scan!(c09_scan_sse2_n40_s24, 40, 24, no);
scan!(c09_scan_sse2_n40_s25, 40, 25, no);
scan!(c09_scan_sse2_n33_s0, 33, 0, no);
scan!(c09_scan_sse2_n17_s1, 17, 1, no);
scan!(c09_scan_sse2_n16_s0, 16, 0, no);
scan!(c09_scan_sse2_n15_s0, 15, 0, no);
// dispatch chosen by the solver
scan!(c09_scan_any_n34_s1, 34, 1, any_bool);

// ---- the four writers -------------------------------------------------------------------

/// Fixed-capacity sink (no heap).
struct Sink {
    buf: [u8; 96],
    len: usize,
}
impl Write for Sink {
    fn write_str(&mut self, s: &str) -> core::fmt::Result {
        let b = s.as_bytes();
        let mut i = 0;
        while i < b.len() {
            if self.len >= 96 {
                return Err(core::fmt::Error);
            }
            self.buf[self.len] = b[i];
            self.len += 1;
            i += 1;
        }
        Ok(())
    }
}

fn hex(b: u8) -> Option<u32> {
    match b {
        b'0'..=b'9' => Some((b - b'0') as u32),
        b'a'..=b'f' => Some((b - b'a') as u32 + 10),
        b'A'..=b'F' => Some((b - b'A') as u32 + 10),
        _ => None,
    }
}
fn hex4(o: &[u8], p: usize) -> Option<u32> {
    if p + 4 > o.len() {
        return None;
    }
    Some((hex(o[p])? << 12) | (hex(o[p + 1])? << 8) | (hex(o[p + 2])? << 4) | hex(o[p + 3])?)
}

/// RFC 8259 string-body decoder for one character at `p`: returns (code point,
/// bytes consumed, was_escaped). Raw characters are decoded from UTF-8; a raw
/// quote, backslash or C0 control is not a legal body character (None).
fn decode_one(o: &[u8], p: usize) -> Option<(u32, usize, bool)> {
    let b = o[p];
    if b == b'\\' {
        if p + 1 >= o.len() {
            return None;
        }
        let e = o[p + 1];
        let simple = match e {
            b'"' => Some(0x22),
            b'\\' => Some(0x5C),
            b'/' => Some(0x2F),
            b'b' => Some(0x08),
            b'f' => Some(0x0C),
            b'n' => Some(0x0A),
            b'r' => Some(0x0D),
            b't' => Some(0x09),
            _ => None,
        };
        if let Some(cp) = simple {
            return Some((cp, 2, true));
        }
        if e != b'u' {
            return None;
        }
        let hi = hex4(o, p + 2)?;
        if hi >= 0xD800 && hi <= 0xDBFF {
            // needs a low surrogate escape right after
            if p + 12 > o.len() || o[p + 6] != b'\\' || o[p + 7] != b'u' {
                return None;
            }
            let lo = hex4(o, p + 8)?;
            if lo < 0xDC00 || lo > 0xDFFF {
                return None;
            }
            return Some((0x10000 + ((hi - 0xD800) << 10) + (lo - 0xDC00), 12, true));
        }
        if hi >= 0xDC00 && hi <= 0xDFFF {
            return None;
        }
        return Some((hi, 6, true));
    }
    if b == b'"' || b < 0x20 {
        return None;
    }
    // raw UTF-8
    let (cp, l) = if b < 0x80 {
        (b as u32, 1)
    } else if b >= 0xC2 && b <= 0xDF {
        (((b as u32) & 0x1F) << 6, 2)
    } else if b >= 0xE0 && b <= 0xEF {
        (((b as u32) & 0x0F) << 12, 3)
    } else if b >= 0xF0 && b <= 0xF4 {
        (((b as u32) & 0x07) << 18, 4)
    } else {
        return None;
    };
    if p + l > o.len() {
        return None;
    }
    let mut cp = cp;
    let mut i = 1;
    while i < l {
        let c = o[p + i];
        if c & 0xC0 != 0x80 {
            return None;
        }
        cp |= ((c & 0x3F) as u32) << (6 * (l - 1 - i));
        i += 1;
    }
    Some((cp, l, false))
}

#[derive(Clone, Copy, PartialEq)]
enum Conv {
    Jq,
    JqAscii,
    Yq,
    YqAscii,
}
fn must_escape(conv: Conv, c: char) -> bool {
    let cp = c as u32;
    let base = cp < 0x20 || c == '"' || c == '\\';
    match conv {
        Conv::Jq => base || cp == 0x7F,
        Conv::JqAscii => base || cp == 0x7F || cp >= 0x80,
        Conv::Yq => base,
        Conv::YqAscii => base || cp >= 0x80,
    }
}

/// "x" c1 c2 with two arbitrary Unicode scalar values: the body decodes back to
/// exactly those three characters and each is escaped iff the convention says so.
macro_rules! writer_2c {
    ($name:ident, $conv:expr, $write:path) => {
        #[kani::proof]
        #[kani::unwind(5)]
        #[kani::stub(succinctly::util::simd::escape::avx2_enabled, any_bool)]
        #[kani::stub(core::arch::x86_64::_mm256_subs_epu8, models::mm256_subs_epu8)]
        #[kani::stub(core::arch::x86_64::_mm_subs_epu8, models::mm_subs_epu8)]
        fn $name() {
            let c1: char = kani::any();
            let c2: char = kani::any();
            let mut src = [0u8; 9];
            src[0] = b'x';
            let l1 = c1.encode_utf8(&mut src[1..5]).len();
            let l2 = c2.encode_utf8(&mut src[1 + l1..5 + l1]).len();
            let s = unsafe { core::str::from_utf8_unchecked(&src[..1 + l1 + l2]) };
            let mut sink = Sink { buf: [0; 96], len: 0 };
            let r = $write(&mut sink, s);
            assert!(r.is_ok());
            let o = &sink.buf[..sink.len];
            assert!(o[0] == b'x');
            let d1 = decode_one(o, 1);
            assert!(d1.is_some());
            let (cp1, n1, e1) = d1.unwrap();
            assert!(cp1 == c1 as u32);
            assert!(e1 == must_escape($conv, c1));
            let d2 = decode_one(o, 1 + n1);
            assert!(d2.is_some());
            let (cp2, n2, e2) = d2.unwrap();
            assert!(cp2 == c2 as u32);
            assert!(e2 == must_escape($conv, c2));
            assert!(1 + n1 + n2 == o.len());
            kani::cover!(c1 as u32 > 0xFFFF && (c2 as u32) < 0x20);
            kani::cover!(c1 == '\u{7f}' && c2 == '\u{e9}');
        }
    };
}
writer_2c!(c09_writer_jq_2c, Conv::Jq, write_json_body_jq);
writer_2c!(c09_writer_jq_ascii_2c, Conv::JqAscii, write_json_body_jq_ascii);
writer_2c!(c09_writer_yq_2c, Conv::Yq, write_json_body_yq);
writer_2c!(c09_writer_yq_ascii_2c, Conv::YqAscii, write_json_body_yq_ascii);

/// One arbitrary Unicode scalar value (cheap instance of the harness above).
macro_rules! writer_1c {
    ($name:ident, $conv:expr, $write:path) => {
        #[kani::proof]
        #[kani::unwind(5)]
        #[kani::stub(succinctly::util::simd::escape::avx2_enabled, any_bool)]
        #[kani::stub(core::arch::x86_64::_mm256_subs_epu8, models::mm256_subs_epu8)]
        #[kani::stub(core::arch::x86_64::_mm_subs_epu8, models::mm_subs_epu8)]
        fn $name() {
            let c: char = kani::any();
            let mut src = [0u8; 4];
            let l = c.encode_utf8(&mut src).len();
            let s = unsafe { core::str::from_utf8_unchecked(&src[..l]) };
            let mut sink = Sink { buf: [0; 96], len: 0 };
            assert!($write(&mut sink, s).is_ok());
            let o = &sink.buf[..sink.len];
            assert!(sink.len > 0);
            let d = decode_one(o, 0);
            assert!(d.is_some());
            let (cp, n, e) = d.unwrap();
            assert!(cp == c as u32);
            assert!(e == must_escape($conv, c));
            assert!(n == o.len());
            kani::cover!(c as u32 > 0xFFFF);
            kani::cover!(c == '\u{7f}');
            kani::cover!((c as u32) < 0x20 && n == 2);
        }
    };
}
writer_1c!(c09_writer_jq_1c, Conv::Jq, write_json_body_jq);
writer_1c!(c09_writer_jq_ascii_1c, Conv::JqAscii, write_json_body_jq_ascii);
writer_1c!(c09_writer_yq_1c, Conv::Yq, write_json_body_yq);
writer_1c!(c09_writer_yq_ascii_1c, Conv::YqAscii, write_json_body_yq_ascii);

/// yq span copying: a 40-byte ASCII string with a 3-byte arbitrary ASCII window
/// (controls, quotes, backslashes allowed) at a concrete offset around the
/// 16/32-byte chunk boundaries; the body decodes back to the input.
macro_rules! yq_span {
    ($name:ident, $at:expr, $avx2:path) => {
        #[kani::proof]
        #[kani::unwind(5)]
        #[kani::stub(succinctly::util::simd::escape::avx2_enabled, $avx2)]
        #[kani::stub(core::arch::x86_64::_mm256_subs_epu8, models::mm256_subs_epu8)]
        #[kani::stub(core::arch::x86_64::_mm_subs_epu8, models::mm_subs_epu8)]
        fn $name() {
            let mut src = [0u8; 40];
            let mut i = 0;
            while i < 40 {
                src[i] = b'a' + (i % 26) as u8;
                i += 1;
            }
            let w: [u8; 3] = kani::any();
            kani::assume(w[0] < 0x80 && w[1] < 0x80 && w[2] < 0x80);
            src[$at] = w[0];
            src[$at + 1] = w[1];
            src[$at + 2] = w[2];
            let s = unsafe { core::str::from_utf8_unchecked(&src) };
            let mut sink = Sink { buf: [0; 96], len: 0 };
            assert!(write_json_body_yq(&mut sink, s).is_ok());
            let o = &sink.buf[..sink.len];
            let mut p = 0;
            let mut k = 0;
            while k < 40 {
                assert!(p < o.len());
                let d = decode_one(o, p);
                assert!(d.is_some());
                let (cp, n, e) = d.unwrap();
                assert!(cp == src[k] as u32);
                assert!(e == must_escape(Conv::Yq, src[k] as char));
                p += n;
                k += 1;
            }
            assert!(p == o.len());
            kani::cover!(w[0] == b'"' && w[2] == 0x01);
        }
    };
}
yq_span!(c09_yq_span_at0, 0, yes);
yq_span!(c09_yq_span_at14, 14, yes);
yq_span!(c09_yq_span_at15, 15, no);
yq_span!(c09_yq_span_at30, 30, yes);
yq_span!(c09_yq_span_at31, 31, yes);
yq_span!(c09_yq_span_at37, 37, no);

#[kani::proof]
#[kani::unwind(4)]
#[kani::stub(succinctly::util::simd::escape::avx2_enabled, yes)]
#[kani::stub(core::arch::x86_64::_mm256_subs_epu8, models::mm256_subs_epu8)]
#[kani::stub(core::arch::x86_64::_mm_subs_epu8, models::mm_subs_epu8)]
fn c09_witness_must_fail() {
    let b: [u8; 40] = kani::any();
    // wrong on purpose: claims DEL is an escape byte
    let got = find_json_escape(&b, 0);
    let mut i = 0;
    let mut want = 40;
    while i < 40 {
        if b[i] == b'"' || b[i] == b'\\' || b[i] < 0x20 || b[i] == 0x7f {
            want = i;
            break;
        }
        i += 1;
    }
    assert!(got == want);
}

//! C02 — word-level bit kernels are exact on every word.
//!
//! Every harness here is full width: the word is an arbitrary u64, k / p an
//! arbitrary u32. No input bound other than the 8-word block size.

use crate::models;
use crate::spec;
use crate::stubs::{any_bool, no, yes};
use succinctly::verif_hooks as hk;

// ---- in-word select, one harness per hardware path -------------------------

#[kani::proof]
#[kani::unwind(66)]
fn c02_select_ctz() {
    let x: u64 = kani::any();
    let k: u32 = kani::any();
    let r = hk::select_in_word_ctz(x, k);
    assert!(r == spec::select_in_word(x, k));
    kani::cover!(r == 63 && k == 63);
    kani::cover!(r == 64 && k < 64 && x != 0);
}

#[kani::proof]
#[kani::unwind(66)]
#[kani::stub(core::arch::x86_64::_pdep_u64, models::pdep_u64)]
fn c02_select_pdep() {
    let x: u64 = kani::any();
    let k: u32 = kani::any();
    let r = unsafe { hk::select_in_word_pdep(x, k) };
    assert!(r == spec::select_in_word(x, k));
    kani::cover!(r == 63 && k == 63);
    kani::cover!(r == 64 && k < 64 && x != 0);
}

#[kani::proof]
#[kani::unwind(66)]
fn c02_select_broadword() {
    let x: u64 = kani::any();
    let k: u32 = kani::any();
    let r = hk::select_in_word_broadword(x, k);
    assert!(r == spec::select_in_word(x, k));
    kani::cover!(r == 63 && k == 63);
    kani::cover!(r == 64 && k < 64 && x != 0);
}

/// The public dispatcher with the hardware probe chosen by the solver.
#[kani::proof]
#[kani::unwind(66)]
#[kani::stub(succinctly::util::simd::x86::has_fast_bmi2, any_bool)]
#[kani::stub(core::arch::x86_64::_pdep_u64, models::pdep_u64)]
fn c02_select_dispatch() {
    let x: u64 = kani::any();
    let k: u32 = kani::any();
    let r = succinctly::select_in_word(x, k);
    assert!(r == spec::select_in_word(x, k));
    kani::cover!(r == 17 && k == 3);
}

#[kani::proof]
#[kani::unwind(10)]
fn c02_select_in_byte() {
    let b: u8 = kani::any();
    let k: u32 = kani::any();
    let r = hk::select_in_byte(b, k);
    assert!(r == spec::select_in_byte(b, k));
    kani::cover!(r == 7 && k == 7);
    kani::cover!(r == 8 && k < 8 && b != 0);
}

// ---- popcount --------------------------------------------------------------

#[kani::proof]
#[kani::unwind(66)]
fn c02_popcount_word() {
    let x: u64 = kani::any();
    assert!(succinctly::popcount_word(x) == spec::popcount64(x));
    assert!(succinctly::popcount_word_portable(x) == spec::popcount64(x));
    kani::cover!(succinctly::popcount_word_portable(x) == 64);
    kani::cover!(succinctly::popcount_word_portable(x) == 33);
}

/// Single-byte popcount as used by the 512-bit reference popcount: all 64
/// bytes symbolic, spec summed byte by byte, bit by bit, in the same order.
#[kani::proof]
#[kani::unwind(66)]
fn c02_popcount_512() {
    let data: [u8; 64] = kani::any();
    let mut expect = 0u32;
    let mut i = 0;
    while i < 64 {
        expect += spec::popcount8(data[i]);
        i += 1;
    }
    assert!(hk::popcount_512(&data) == expect);
    assert!(hk::popcount_512_scalar(&data) == expect);
    kani::cover!(expect == 512);
    kani::cover!(expect == 1);
}

// ---- 8-word block popcount ---------------------------------------------------

#[kani::proof]
#[kani::unwind(66)]
fn c02_block_popcount_portable() {
    let w: [u64; 8] = kani::any();
    let mut expect = 0usize;
    let mut i = 0;
    while i < 8 {
        expect += spec::popcount64(w[i]) as usize;
        i += 1;
    }
    assert!(succinctly::bits::block_popcount_portable(&w) == expect);
    kani::cover!(expect == 512);
}

/// Byte-wise spec summed in the AVX2 kernel's own association order
/// (byte j of vector 0 + byte j of vector 1, then per 64-bit lane, then
/// across lanes). Every byte count is a bit-at-a-time loop.
fn block_popcount_lane_order(w: &[u64; 8]) -> usize {
    let b: [u8; 64] = unsafe { core::mem::transmute(*w) };
    let mut total = 0usize;
    let mut lane = 0;
    while lane < 4 {
        let mut s = 0usize;
        let mut j = 0;
        while j < 8 {
            let pair = spec::popcount8(b[lane * 8 + j]) + spec::popcount8(b[32 + lane * 8 + j]);
            s += pair as usize;
            j += 1;
        }
        total += s;
        lane += 1;
    }
    total
}

#[kani::proof]
#[kani::unwind(34)]
#[kani::stub(core::arch::x86_64::_mm256_shuffle_epi8, models::mm256_shuffle_epi8)]
#[kani::stub(core::arch::x86_64::_mm256_sad_epu8, models::mm256_sad_epu8)]
fn c02_block_popcount_avx2() {
    let w: [u64; 8] = kani::any();
    let got = unsafe { hk::block_popcount_avx2(&w) };
    assert!(got == block_popcount_lane_order(&w));
    kani::cover!(got == 512);
    kani::cover!(got == 0);
}

/// Ties the lane-order spec to the word-order definition on a generating
/// family: one arbitrary word at an arbitrary position, the rest zero.
#[kani::proof]
#[kani::unwind(66)]
#[kani::stub(core::arch::x86_64::_mm256_shuffle_epi8, models::mm256_shuffle_epi8)]
#[kani::stub(core::arch::x86_64::_mm256_sad_epu8, models::mm256_sad_epu8)]
fn c02_block_popcount_avx2_oneword() {
    let x: u64 = kani::any();
    let pos: usize = kani::any();
    kani::assume(pos < 8);
    let mut w = [0u64; 8];
    w[pos] = x;
    let got = unsafe { hk::block_popcount_avx2(&w) };
    assert!(got == spec::popcount64(x) as usize);
    kani::cover!(got == 64 && pos == 7);
}

// ---- in-word parenthesis kernels --------------------------------------------

#[kani::proof]
#[kani::unwind(66)]
fn c02_find_unmatched_close_in_word() {
    let x: u64 = kani::any();
    let r = succinctly::trees::find_unmatched_close_in_word(x);
    assert!(r == spec::find_unmatched_close_in_word(x));
    kani::cover!(r == 62); // only even positions can be the first negative-excess point
    kani::cover!(r == 64);
}

#[kani::proof]
#[kani::unwind(66)]
fn c02_find_close_in_word() {
    let x: u64 = kani::any();
    let p: u32 = kani::any();
    let r = succinctly::trees::find_close_in_word(x, p);
    assert!(r == spec::find_close_in_word(x, p));
    kani::cover!(r == Some(63) && p == 0);
    kani::cover!(r.is_none() && p < 63 && (x >> p) & 1 == 1);
    kani::cover!(p == 63);
}

// ---- the loop-free contract other properties substitute for select_in_word --------

/// Soundness: whatever the contract returns is the specified position.
#[kani::proof]
#[kani::unwind(66)]
fn c02_contract_sound() {
    let x: u64 = kani::any();
    let k: u32 = kani::any();
    let r = crate::stubs::select_in_word_contract(x, k);
    assert!(r == spec::select_in_word(x, k));
    kani::cover!(r == 63);
    kani::cover!(r == 64 && x != 0);
}

/// Totality: the specified position always satisfies the contract's
/// assumptions, so substituting the contract never silently prunes an input.
#[kani::proof]
#[kani::unwind(66)]
fn c02_contract_total() {
    let x: u64 = kani::any();
    let k: u32 = kani::any();
    let s = spec::select_in_word(x, k);
    if k < x.count_ones() {
        assert!(s < 64);
        assert!((x >> s) & 1 == 1);
        assert!((x & ((1u64 << s) - 1)).count_ones() == k);
    } else {
        assert!(s == 64);
    }
    kani::cover!(s == 40);
}

// ---- witness: a deliberately wrong claim must be refuted ---------------------

#[kani::proof]
#[kani::unwind(66)]
fn c02_witness_must_fail() {
    let x: u64 = kani::any();
    let k: u32 = kani::any();
    // wrong on purpose: claims select never returns 64
    assert!(hk::select_in_word_ctz(x, k) < 64);
}

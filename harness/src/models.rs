//! Bit-precise Rust models of the x86 intrinsics Kani 0.68 cannot lower.
//!
//! Each model is written lane by lane from the Intel SDM pseudocode and is
//! installed over the real intrinsic with `#[kani::stub]`. The native test
//! `tests/model_validation.rs` compares every model with the real instruction
//! on this host (Serval-style validation of the encoder); a mismatch aborts
//! the check run. The models are part of the trusted base of every harness
//! that lists them.
#![allow(clippy::missing_safety_doc)]

use core::arch::x86_64::{__m128i, __m256i};

#[inline(always)]
pub fn tb(v: __m256i) -> [u8; 32] {
    unsafe { core::mem::transmute(v) }
}
#[inline(always)]
pub fn fb(b: [u8; 32]) -> __m256i {
    unsafe { core::mem::transmute(b) }
}
#[inline(always)]
pub fn tb16(v: __m128i) -> [u8; 16] {
    unsafe { core::mem::transmute(v) }
}
#[inline(always)]
pub fn fb16(b: [u8; 16]) -> __m128i {
    unsafe { core::mem::transmute(b) }
}

/// PDEP r64, r64, r/m64 (SDM vol. 2B): deposit the low bits of `src` at the
/// set positions of `mask`, in order.
pub fn pdep_u64(src: u64, mask: u64) -> u64 {
    let mut dest = 0u64;
    let mut k = 0u32;
    let mut m = 0u32;
    while m < 64 {
        if (mask >> m) & 1 == 1 {
            dest |= ((src >> k) & 1) << m;
            k += 1;
        }
        m += 1;
    }
    dest
}

/// VPSHUFB ymm (per 128-bit lane): index bit 7 set -> 0, else low 4 bits
/// select a byte of the same lane of `a`.
pub fn mm256_shuffle_epi8(a: __m256i, b: __m256i) -> __m256i {
    let a = tb(a);
    let b = tb(b);
    let mut r = [0u8; 32];
    let mut i = 0;
    while i < 32 {
        let lane = i & 16;
        r[i] = if b[i] & 0x80 != 0 {
            0
        } else {
            a[lane + (b[i] & 0x0F) as usize]
        };
        i += 1;
    }
    fb(r)
}

/// PSHUFB xmm.
pub fn mm_shuffle_epi8(a: __m128i, b: __m128i) -> __m128i {
    let a = tb16(a);
    let b = tb16(b);
    let mut r = [0u8; 16];
    let mut i = 0;
    while i < 16 {
        r[i] = if b[i] & 0x80 != 0 {
            0
        } else {
            a[(b[i] & 0x0F) as usize]
        };
        i += 1;
    }
    fb16(r)
}

/// VPSADBW ymm: per 64-bit lane, sum of absolute byte differences, zero
/// extended into the lane.
pub fn mm256_sad_epu8(a: __m256i, b: __m256i) -> __m256i {
    let a = tb(a);
    let b = tb(b);
    let mut out = [0u64; 4];
    let mut l = 0;
    while l < 4 {
        let mut s = 0u64;
        let mut j = 0;
        while j < 8 {
            let x = a[l * 8 + j];
            let y = b[l * 8 + j];
            s += (if x > y { x - y } else { y - x }) as u64;
            j += 1;
        }
        out[l] = s;
        l += 1;
    }
    unsafe { core::mem::transmute(out) }
}

pub fn mm256_max_epu8(a: __m256i, b: __m256i) -> __m256i {
    let a = tb(a);
    let b = tb(b);
    let mut r = [0u8; 32];
    let mut i = 0;
    while i < 32 {
        r[i] = if a[i] > b[i] { a[i] } else { b[i] };
        i += 1;
    }
    fb(r)
}

pub fn mm256_min_epu8(a: __m256i, b: __m256i) -> __m256i {
    let a = tb(a);
    let b = tb(b);
    let mut r = [0u8; 32];
    let mut i = 0;
    while i < 32 {
        r[i] = if a[i] < b[i] { a[i] } else { b[i] };
        i += 1;
    }
    fb(r)
}

pub fn mm_max_epu8(a: __m128i, b: __m128i) -> __m128i {
    let a = tb16(a);
    let b = tb16(b);
    let mut r = [0u8; 16];
    let mut i = 0;
    while i < 16 {
        r[i] = if a[i] > b[i] { a[i] } else { b[i] };
        i += 1;
    }
    fb16(r)
}

pub fn mm_min_epu8(a: __m128i, b: __m128i) -> __m128i {
    let a = tb16(a);
    let b = tb16(b);
    let mut r = [0u8; 16];
    let mut i = 0;
    while i < 16 {
        r[i] = if a[i] < b[i] { a[i] } else { b[i] };
        i += 1;
    }
    fb16(r)
}

pub fn mm256_subs_epu8(a: __m256i, b: __m256i) -> __m256i {
    let a = tb(a);
    let b = tb(b);
    let mut r = [0u8; 32];
    let mut i = 0;
    while i < 32 {
        r[i] = a[i].saturating_sub(b[i]);
        i += 1;
    }
    fb(r)
}

pub fn mm_subs_epu8(a: __m128i, b: __m128i) -> __m128i {
    let a = tb16(a);
    let b = tb16(b);
    let mut r = [0u8; 16];
    let mut i = 0;
    while i < 16 {
        r[i] = a[i].saturating_sub(b[i]);
        i += 1;
    }
    fb16(r)
}

/// VPSUBB ymm: wrapping byte subtraction (Kani's `simd_sub` lowering reports a
/// spurious overflow on it).
pub fn mm256_sub_epi8(a: __m256i, b: __m256i) -> __m256i {
    let a = tb(a);
    let b = tb(b);
    let mut r = [0u8; 32];
    let mut i = 0;
    while i < 32 {
        r[i] = a[i].wrapping_sub(b[i]);
        i += 1;
    }
    fb(r)
}

pub fn mm_sub_epi8(a: __m128i, b: __m128i) -> __m128i {
    let a = tb16(a);
    let b = tb16(b);
    let mut r = [0u8; 16];
    let mut i = 0;
    while i < 16 {
        r[i] = a[i].wrapping_sub(b[i]);
        i += 1;
    }
    fb16(r)
}

/// VPADDB ymm: wrapping byte addition.
pub fn mm256_add_epi8(a: __m256i, b: __m256i) -> __m256i {
    let a = tb(a);
    let b = tb(b);
    let mut r = [0u8; 32];
    let mut i = 0;
    while i < 32 {
        r[i] = a[i].wrapping_add(b[i]);
        i += 1;
    }
    fb(r)
}

/// VPTEST ymm, ZF result: 1 iff (a AND b) == 0.
pub fn mm256_testz_si256(a: __m256i, b: __m256i) -> i32 {
    let a: [u64; 4] = unsafe { core::mem::transmute(a) };
    let b: [u64; 4] = unsafe { core::mem::transmute(b) };
    if (a[0] & b[0]) | (a[1] & b[1]) | (a[2] & b[2]) | (a[3] & b[3]) == 0 {
        1
    } else {
        0
    }
}

/// PHMINPOSUW: minimum u16 in bits 15:0, its (lowest) index in bits 18:16.
pub fn mm_minpos_epu16(a: __m128i) -> __m128i {
    let a: [u16; 8] = unsafe { core::mem::transmute(a) };
    let mut min = a[0];
    let mut idx = 0u16;
    let mut i = 1;
    while i < 8 {
        if a[i] < min {
            min = a[i];
            idx = i as u16;
        }
        i += 1;
    }
    let out: [u16; 8] = [min, idx, 0, 0, 0, 0, 0, 0];
    unsafe { core::mem::transmute(out) }
}

//! C05 — the JSON semi-index does not depend on the indexing engine.

use crate::models;
use crate::stubs::{any_bool, no, yes};
use succinctly::json::pfsm_tables::{PfsmState, PHI_TABLE, TRANSITION_TABLE};
use succinctly::json::{simd, simple, standard};

/// The oracle's bit sequences, one `bool` per bit (no packing: packing needs
/// shifts and indices by a symbolic amount, which dominate the SAT encoding).
struct Bits<const M: usize> {
    b: [bool; M],
    n: usize,
}
impl<const M: usize> Bits<M> {
    fn new() -> Self {
        Bits { b: [false; M], n: 0 }
    }
    fn push(&mut self, x: bool) {
        self.b[self.n] = x;
        self.n += 1;
    }
}

/// Bit k of a packed word vector, reading the word through a concrete index.
fn word_bit(w: &[u64], k: usize) -> bool {
    let word = match k / 64 {
        0 => {
            if w.len() > 0 {
                w[0]
            } else {
                0
            }
        }
        1 => {
            if w.len() > 1 {
                w[1]
            } else {
                0
            }
        }
        2 => {
            if w.len() > 2 {
                w[2]
            } else {
                0
            }
        }
        _ => 0,
    };
    (word >> (k % 64)) & 1 == 1
}

#[derive(Clone, Copy, PartialEq)]
enum S {
    Json,
    Str,
    Esc,
    Val,
}
fn value_char(c: u8) -> bool {
    (c >= b'a' && c <= b'z') || (c >= b'A' && c <= b'Z') || (c >= b'0' && c <= b'9') || c == b'.' || c == b'-' || c == b'+'
}
/// Reference machine of the standard (cursor) encoding: one step.
/// Returns (next state, interest bit, emit BP open, emit BP close).
fn step_standard(s: S, c: u8) -> (S, bool, bool, bool) {
    let open = c == b'[' || c == b'{';
    let close = c == b']' || c == b'}';
    let delim = c == b',' || c == b':';
    match s {
        S::Json | S::Val => {
            if open {
                (S::Json, true, true, false)
            } else if close {
                (S::Json, false, false, true)
            } else if delim {
                (S::Json, false, false, false)
            } else if value_char(c) {
                if s == S::Json {
                    (S::Val, true, true, true)
                } else {
                    (S::Val, false, false, false)
                }
            } else if c == b'"' && s == S::Json {
                (S::Str, true, true, true)
            } else {
                (S::Json, false, false, false)
            }
        }
        S::Str => {
            if c == b'"' {
                (S::Json, false, false, false)
            } else if c == b'\\' {
                (S::Esc, false, false, false)
            } else {
                (S::Str, false, false, false)
            }
        }
        S::Esc => (S::Str, false, false, false),
    }
}

fn spec_standard<const N: usize, const WI: usize, const WB: usize>(t: &[u8; N]) -> (Bits<WI>, Bits<WB>, S) {
    // WI >= N interest bits, WB >= 2N BP bits
    let mut ib = Bits::<WI>::new();
    let mut bp = Bits::<WB>::new();
    let mut s = S::Json;
    let mut i = 0;
    while i < N {
        let (ns, i_bit, o, c) = step_standard(s, t[i]);
        s = ns;
        ib.push(i_bit);
        if o {
            bp.push(true);
        }
        if c {
            bp.push(false);
        }
        i += 1;
    }
    (ib, bp, s)
}

/// Reference machine of the simple encoding.
fn spec_simple<const N: usize, const WI: usize, const WB: usize>(t: &[u8; N]) -> (Bits<WI>, Bits<WB>, S) {
    let mut ib = Bits::<WI>::new();
    let mut bp = Bits::<WB>::new();
    let mut s = S::Json;
    let mut i = 0;
    while i < N {
        let c = t[i];
        match s {
            S::Json | S::Val => {
                if c == b'[' || c == b'{' {
                    bp.push(true);
                    bp.push(true);
                    ib.push(true);
                } else if c == b']' || c == b'}' {
                    bp.push(false);
                    bp.push(false);
                    ib.push(true);
                } else if c == b',' || c == b':' {
                    bp.push(false);
                    bp.push(true);
                    ib.push(true);
                } else if c == b'"' {
                    ib.push(false);
                    s = S::Str;
                } else {
                    ib.push(false);
                }
            }
            S::Str => {
                ib.push(false);
                if c == b'"' {
                    s = S::Json;
                } else if c == b'\\' {
                    s = S::Esc;
                }
            }
            S::Esc => {
                ib.push(false);
                s = S::Str;
            }
        }
        i += 1;
    }
    (ib, bp, s)
}

fn st_std(s: standard::State) -> S {
    match s {
        standard::State::InJson => S::Json,
        standard::State::InString => S::Str,
        standard::State::InEscape => S::Esc,
        standard::State::InValue => S::Val,
    }
}
fn st_simple(s: simple::State) -> S {
    match s {
        simple::State::InJson => S::Json,
        simple::State::InString => S::Str,
        simple::State::InEscape => S::Esc,
    }
}

/// The packed vector `got` spells exactly the oracle's bit sequence: right word
/// count, every bit equal (for an arbitrary bit index), nothing set past the end.
fn same_bits<const M: usize>(got: &[u64], want: &Bits<M>) {
    assert!(got.len() == (want.n + 63) / 64);
    let k: usize = kani::any();
    kani::assume(k < M + 64);
    let expect = k < want.n && want.b[if k < M { k } else { 0 }];
    assert!(word_bit(got, k) == expect);
}

macro_rules! check_std {
    ($idx:expr, $ib:expr, $bp:expr, $s:expr) => {{
        let x = $idx;
        same_bits(&x.ib, &$ib);
        same_bits(&x.bp, &$bp);
        assert!(st_std(x.state) == $s);
        core::mem::forget(x);
    }};
}
macro_rules! check_simple {
    ($idx:expr, $ib:expr, $bp:expr, $s:expr) => {{
        let x = $idx;
        same_bits(&x.ib, &$ib);
        same_bits(&x.bp, &$bp);
        assert!(st_simple(x.state) == $s);
        core::mem::forget(x);
    }};
}

// ---- PFSM tables: every (state, byte) -------------------------------------------------

#[kani::proof]
#[kani::stub(alloc::vec::Vec::push, crate::stubs::push_no_grow)]
#[kani::unwind(6)]
fn c05_pfsm_tables() {
    let b: u8 = kani::any();
    let si: u8 = kani::any();
    kani::assume(si < 4);
    let (ps, s) = match si {
        0 => (PfsmState::InJson, S::Json),
        1 => (PfsmState::InString, S::Str),
        2 => (PfsmState::InEscape, S::Esc),
        _ => (PfsmState::InValue, S::Val),
    };
    let phi = PfsmState::extract_phi(PHI_TABLE[b as usize], ps);
    let next = PfsmState::extract_next_state(TRANSITION_TABLE[b as usize], ps);
    let (ns, ib, open, close) = step_standard(s, b);
    assert!((phi & 1 != 0) == close);
    assert!(((phi >> 1) & 1 != 0) == open);
    assert!(((phi >> 2) & 1 != 0) == ib);
    assert!(phi < 8);
    let n = match next {
        PfsmState::InJson => S::Json,
        PfsmState::InString => S::Str,
        PfsmState::InEscape => S::Esc,
        PfsmState::InValue => S::Val,
    };
    assert!(n == ns);
    kani::cover!(si == 3 && b == b'{');
    kani::cover!(si == 2 && b == b'"');
}

// ---- scalar + PFSM builders against the oracle, short arbitrary strings ------------------

macro_rules! short {
    ($name:ident, $n:expr) => {
        #[kani::proof]
        #[kani::stub(alloc::vec::Vec::push, crate::stubs::push_no_grow)]
        #[kani::unwind(12)]
        fn $name() {
            let t: [u8; $n] = kani::any();
            let (ib, bp, s) = spec_standard::<$n, { $n }, { 2 * $n }>(&t);
            check_std!(standard::build_semi_index_scalar(&t), ib, bp, s);
            check_std!(standard::build_semi_index(&t), ib, bp, s);
            let (ib2, bp2, s2) = spec_simple::<$n, { $n }, { 2 * $n }>(&t);
            check_simple!(simple::build_semi_index(&t), ib2, bp2, s2);
            kani::cover!(s == S::Esc);
            kani::cover!(s == S::Val && bp.n >= 6);
        }
    };
}
short!(c05_short_len4, 4);
short!(c05_short_len6, 6);
short!(c05_short_len8, 8);
short!(c05_short_len10, 10);

// ---- SIMD engines: one full chunk + carry + tail ---------------------------------------

macro_rules! simd_std {
    ($name:ident, $n:expr, $wb:expr, $build:path, $($stub:meta),*) => {
        #[kani::proof]
        #[kani::stub(alloc::vec::Vec::push, crate::stubs::push_no_grow)]
        #[kani::unwind(5)]
        $(#[$stub])*
        fn $name() {
            let t: [u8; $n] = kani::any();
            let (ib, bp, s) = spec_standard::<$n, { $n }, { 2 * $n }>(&t);
            check_std!($build(&t), ib, bp, s);
            kani::cover!(s == S::Str && t[$n - 2] == b'\\');
            kani::cover!(bp.n > $n / 2);
        }
    };
}
macro_rules! simd_simple {
    ($name:ident, $n:expr, $wb:expr, $build:path, $($stub:meta),*) => {
        #[kani::proof]
        #[kani::stub(alloc::vec::Vec::push, crate::stubs::push_no_grow)]
        #[kani::unwind(5)]
        $(#[$stub])*
        fn $name() {
            let t: [u8; $n] = kani::any();
            let (ib, bp, s) = spec_simple::<$n, { $n }, { 2 * $n }>(&t);
            check_simple!($build(&t), ib, bp, s);
            kani::cover!(s == S::Esc);
            kani::cover!(bp.n > $n / 2);
        }
    };
}
macro_rules! avx2 {
    ($mac:ident, $name:ident, $n:expr, $wb:expr, $build:path) => {
        $mac!($name, $n, $wb, $build,
            kani::stub(core::arch::x86_64::_mm256_min_epu8, models::mm256_min_epu8),
            kani::stub(core::arch::x86_64::_mm256_sub_epi8, models::mm256_sub_epi8),
            kani::stub(core::arch::x86_64::_mm_min_epu8, models::mm_min_epu8),
            kani::stub(core::arch::x86_64::_mm_sub_epi8, models::mm_sub_epi8));
    };
}
avx2!(simd_std, c05_avx2_std_33, 33, 2, simd::avx2::build_semi_index_standard);
avx2!(simd_std, c05_avx2_std_34, 34, 2, simd::avx2::build_semi_index_standard);
avx2!(simd_std, c05_avx2_std_40, 40, 2, simd::avx2::build_semi_index_standard);
avx2!(simd_std, c05_avx2_std_65, 65, 3, simd::avx2::build_semi_index_standard);
avx2!(simd_std, c05_avx2_std_32, 32, 1, simd::avx2::build_semi_index_standard);
avx2!(simd_std, c05_avx2_std_7, 7, 1, simd::avx2::build_semi_index_standard);
avx2!(simd_std, c05_sse2_std_17, 17, 1, simd::x86::build_semi_index_standard);
avx2!(simd_std, c05_sse2_std_33, 33, 2, simd::x86::build_semi_index_standard);
avx2!(simd_std, c05_sse2_std_40, 40, 2, simd::x86::build_semi_index_standard);
avx2!(simd_std, c05_sse2_std_16, 16, 1, simd::x86::build_semi_index_standard);
avx2!(simd_simple, c05_avx2_simple_33, 33, 2, simd::avx2::build_semi_index_simple);
avx2!(simd_simple, c05_avx2_simple_40, 40, 2, simd::avx2::build_semi_index_simple);
avx2!(simd_simple, c05_sse2_simple_17, 17, 1, simd::x86::build_semi_index_simple);
avx2!(simd_simple, c05_sse2_simple_33, 33, 2, simd::x86::build_semi_index_simple);

// the runtime dispatchers (what JsonIndex::build calls), AVX2 probe chosen by the solver
simd_std!(c05_dispatch_std_34, 34, 2, simd::build_semi_index_standard,
    kani::stub(std_detect::detect::__is_feature_detected::avx2, any_bool),
    kani::stub(core::arch::x86_64::_mm256_min_epu8, models::mm256_min_epu8),
    kani::stub(core::arch::x86_64::_mm256_sub_epi8, models::mm256_sub_epi8),
    kani::stub(core::arch::x86_64::_mm_min_epu8, models::mm_min_epu8),
    kani::stub(core::arch::x86_64::_mm_sub_epi8, models::mm_sub_epi8));
simd_simple!(c05_dispatch_simple_34, 34, 2, simd::build_semi_index_simple,
    kani::stub(std_detect::detect::__is_feature_detected::avx2, any_bool),
    kani::stub(core::arch::x86_64::_mm256_min_epu8, models::mm256_min_epu8),
    kani::stub(core::arch::x86_64::_mm256_sub_epi8, models::mm256_sub_epi8),
    kani::stub(core::arch::x86_64::_mm_min_epu8, models::mm_min_epu8),
    kani::stub(core::arch::x86_64::_mm_sub_epi8, models::mm_sub_epi8));

#[kani::proof]
#[kani::stub(alloc::vec::Vec::push, crate::stubs::push_no_grow)]
#[kani::unwind(12)]
fn c05_witness_must_fail() {
    let t: [u8; 4] = kani::any();
    let x = standard::build_semi_index(&t);
    // wrong on purpose: claims the scanner never ends inside a string
    assert!(x.state != standard::State::InString);
    core::mem::forget(x);
}



//! C04 — balanced-parentheses navigation matches its linear-scan definition.

use crate::models;
use crate::spec::{self, bit, masked};
use crate::stubs::{any_bool, no, yes};
use succinctly::trees::{self, BalancedParens};
use succinctly::Config;

// ---- linear-scan definitions over the first `len` bits (words already masked) -----------

fn d_find_close(w: &[u64], len: usize, p: usize) -> Option<usize> {
    if p >= len || !bit(w, p) {
        return None;
    }
    let mut e = 0i64;
    let mut i = p;
    while i < len {
        if bit(w, i) {
            e += 1;
        } else {
            e -= 1;
        }
        if e == 0 {
            return Some(i);
        }
        i += 1;
    }
    None
}
fn d_find_open(w: &[u64], len: usize, p: usize) -> Option<usize> {
    if p >= len || bit(w, p) {
        return None;
    }
    let mut e = 0i64;
    let mut i = p + 1;
    while i > 0 {
        i -= 1;
        if bit(w, i) {
            e -= 1;
        } else {
            e += 1;
        }
        if e == 0 {
            return Some(i);
        }
    }
    None
}
fn d_enclose(w: &[u64], len: usize, p: usize) -> Option<usize> {
    if p >= len || !bit(w, p) {
        return None;
    }
    let mut e = 0i64;
    let mut i = p;
    while i > 0 {
        i -= 1;
        if bit(w, i) {
            if e == 0 {
                return Some(i);
            }
            e -= 1;
        } else {
            e += 1;
        }
    }
    None
}
fn d_excess(w: &[u64], len: usize, p: usize) -> i64 {
    if p >= len {
        return 0;
    }
    2 * spec::rank1(w, p + 1) as i64 - (p as i64 + 1)
}
fn d_select0(w: &[u64], len: usize, k: usize) -> Option<usize> {
    // k-th zero among the first len bits
    let mut seen = 0usize;
    let mut i = 0;
    while i < len {
        if !bit(w, i) {
            if seen == k {
                return Some(i);
            }
            seen += 1;
        }
        i += 1;
    }
    None
}

/// The statement's queries, split into four groups so that each harness inlines
/// one copy of the navigation code (CBMC inlines every call site).
macro_rules! check_group {
    (close, $bp:expr, $m:expr, $len:expr, $p:expr, $k:expr) => {{
        let fc = $bp.find_close($p);
        assert!(fc == d_find_close(&$m, $len, $p));
        kani::cover!($len <= 64 || matches!(fc, Some(c) if c >= 64 && $p < 60));
        kani::cover!(fc.is_none() && $p < $len && bit(&$m, $p));
    }};
    (derived, $bp:expr, $m:expr, $len:expr, $p:expr, $k:expr) => {{
        let want = d_find_close(&$m, $len, $p);
        let ns = match want {
            Some(c) if c + 1 < $len && bit(&$m, c + 1) => Some(c + 1),
            _ => None,
        };
        assert!($bp.next_sibling($p) == ns);
        assert!($bp.subtree_size($p) == want.map(|c| (c - $p) / 2));
        kani::cover!(ns.is_some() && $p > 3);
    }};
    (open, $bp:expr, $m:expr, $len:expr, $p:expr, $k:expr) => {{
        let fo = $bp.find_open($p);
        assert!(fo == d_find_open(&$m, $len, $p));
        let enc = $bp.enclose($p);
        assert!(enc == d_enclose(&$m, $len, $p));
        assert!($bp.parent($p) == enc);
        kani::cover!($len <= 64 || matches!(fo, Some(o) if o < 60 && $p >= 64));
        kani::cover!($len <= 64 || matches!(enc, Some(o) if o < 60 && $p >= 64));
    }};
    (rank, $bp:expr, $m:expr, $len:expr, $p:expr, $k:expr) => {{
        assert!($bp.len() == $len);
        let is_open = $p < $len && bit(&$m, $p);
        assert!($bp.is_open($p) == is_open);
        assert!($bp.is_close($p) == ($p < $len && !bit(&$m, $p)));
        assert!($bp.first_child($p) == if is_open && $p + 1 < $len && bit(&$m, $p + 1) { Some($p + 1) } else { None });
        let ex = d_excess(&$m, $len, $p);
        assert!($bp.excess($p) as i64 == ex);
        if $p < $len && ex >= 0 {
            assert!($bp.depth($p) == Some(ex as usize));
        }
        if $p >= $len {
            assert!($bp.depth($p).is_none());
        }
        let lim = if $p < $len { $p } else { $len };
        assert!($bp.rank1($p) == spec::rank1(&$m, lim));
        assert!($bp.rank0($p) == lim - spec::rank1(&$m, lim));
        assert!($bp.select0($k) == d_select0(&$m, $len, $k));
        assert!($bp.total_ones() == spec::rank1(&$m, $len));
        kani::cover!($len <= 65 || ($p > 64 && $p < $len && ex < 0));
        kani::cover!($len <= 64 || matches!($bp.select0($k), Some(z) if z >= 64));
    }};
}

// ---- free functions (no index): arbitrary words incl. stray bits ---------------------------

macro_rules! free_fns {
    ($name:ident, $which:ident, $len:expr) => {
        #[kani::proof]
        #[kani::stub(alloc::vec::Vec::push, crate::stubs::push_no_grow)]
        #[kani::unwind(10)]
        fn $name() {
            let w: [u64; 2] = kani::any();
            let m = masked(&w, $len);
            let p: usize = kani::any();
            kani::assume(p <= 131);
            free_fns!(@$which, w, m, p, $len);
        }
    };
    (@close, $w:ident, $m:ident, $p:ident, $len:expr) => {
        let fc = trees::find_close(&$w, $len, $p);
        assert!(fc == d_find_close(&$m, $len, $p));
        kani::cover!($len <= 64 || matches!(fc, Some(c) if c >= 64 && $p < 60));
        kani::cover!(fc.is_none() && $p < $len && bit(&$m, $p));
    };
    (@open, $w:ident, $m:ident, $p:ident, $len:expr) => {
        let fo = trees::find_open(&$w, $len, $p);
        assert!(fo == d_find_open(&$m, $len, $p));
        kani::cover!($len <= 64 || matches!(fo, Some(o) if o < 60 && $p >= 64));
        kani::cover!(fo.is_none() && $p < $len && !bit(&$m, $p));
    };
    (@enclose, $w:ident, $m:ident, $p:ident, $len:expr) => {
        let en = trees::enclose(&$w, $len, $p);
        assert!(en == d_enclose(&$m, $len, $p));
        kani::cover!(matches!(en, Some(o) if o < 60 && $p >= 64));
        kani::cover!(en.is_none() && $p > 0 && $p < $len && bit(&$m, $p));
    };
}
free_fns!(c04_free_close_len100, close, 100);
free_fns!(c04_free_open_len100, open, 100);
free_fns!(c04_free_enclose_len100, enclose, 100);
free_fns!(c04_free_close_len128, close, 128);
free_fns!(c04_free_open_len128, open, 128);
free_fns!(c04_free_enclose_len128, enclose, 128);
free_fns!(c04_free_close_len65, close, 65);
free_fns!(c04_free_open_len65, open, 65);
free_fns!(c04_free_enclose_len65, enclose, 65);
free_fns!(c04_free_close_len63, close, 63);
free_fns!(c04_free_open_len64, open, 64);
free_fns!(c04_free_enclose_len63, enclose, 63);

// ---- BalancedParens, every storage / select variant ----------------------------------------

macro_rules! bp_owned {
    ($name:ident, $grp:ident, $len:expr) => {
        #[kani::proof]
        #[kani::stub(alloc::vec::Vec::push, crate::stubs::push_no_grow)]
        #[kani::unwind(10)]
        fn $name() {
            let w: [u64; 2] = kani::any();
            let m = masked(&w, $len);
            let bp = BalancedParens::new(vec![w[0], w[1]], $len);
            let p: usize = kani::any();
            kani::assume(p <= 131);
            let k: usize = kani::any();
            kani::assume(k <= 131);
            check_group!($grp, bp, m, $len, p, k);
            core::mem::forget(bp);
        }
    };
}
bp_owned!(c04_bp_close_len100, close, 100);
bp_owned!(c04_bp_derived_len100, derived, 100);
bp_owned!(c04_bp_open_len100, open, 100);
bp_owned!(c04_bp_rank_len100, rank, 100);
bp_owned!(c04_bp_close_len128, close, 128);
bp_owned!(c04_bp_open_len128, open, 128);
bp_owned!(c04_bp_rank_len128, rank, 128);
bp_owned!(c04_bp_close_len65, close, 65);
bp_owned!(c04_bp_open_len65, open, 65);
bp_owned!(c04_bp_rank_len65, rank, 65);
bp_owned!(c04_bp_close_len64, close, 64);
bp_owned!(c04_bp_open_len64, open, 64);
bp_owned!(c04_bp_close_len63, close, 63);
bp_owned!(c04_bp_rank_len63, rank, 63);
bp_owned!(c04_bp_close_len1, close, 1);
bp_owned!(c04_bp_rank_len1, rank, 1);

/// Borrowed storage with stray bits left in the words.
macro_rules! bp_borrowed {
    ($name:ident, $grp:ident, $len:expr) => {
        #[kani::proof]
        #[kani::stub(alloc::vec::Vec::push, crate::stubs::push_no_grow)]
        #[kani::unwind(10)]
        fn $name() {
            let w: [u64; 2] = kani::any();
            let m = masked(&w, $len);
            kani::assume(w[1] != m[1]); // stray bits present
            let bp = BalancedParens::from_words(&w[..], $len);
            let p: usize = kani::any();
            kani::assume(p <= 131);
            let k: usize = kani::any();
            kani::assume(k <= 131);
            check_group!($grp, bp, m, $len, p, k);
            core::mem::forget(bp);
        }
    };
}
bp_borrowed!(c04_bp_borrowed_close_len100, close, 100);
bp_borrowed!(c04_bp_borrowed_open_len100, open, 100);
bp_borrowed!(c04_bp_borrowed_rank_len100, rank, 100);
bp_borrowed!(c04_bp_borrowed_close_len65, close, 65);
bp_borrowed!(c04_bp_borrowed_rank_len65, rank, 65);

/// One-word instances (cheap enough for the quick tier): same definitions, one
/// arbitrary word, lengths 40 and 64.
macro_rules! one_word {
    ($name:ident, $grp:ident, $len:expr) => {
        #[kani::proof]
        #[kani::stub(alloc::vec::Vec::push, crate::stubs::push_no_grow)]
        #[kani::unwind(10)]
        fn $name() {
            let w: [u64; 1] = kani::any();
            let m = masked(&w, $len);
            let bp = BalancedParens::new(vec![w[0]], $len);
            let p: usize = kani::any();
            kani::assume(p <= 66);
            let k: usize = kani::any();
            kani::assume(k <= 66);
            check_group!($grp, bp, m, $len, p, k);
            core::mem::forget(bp);
        }
    };
}
one_word!(c04_w1_close_len40, close, 40);
one_word!(c04_w1_open_len40, open, 40);
one_word!(c04_w1_rank_len40, rank, 40);
one_word!(c04_w1_derived_len40, derived, 40);
one_word!(c04_w1_close_len64, close, 64);
one_word!(c04_w1_open_len64, open, 64);

/// Select-support variants: deprecated sampled select and CS-Poppy at concrete rates.
macro_rules! bp_select {
    ($name:ident, $len:expr, $ctor:expr) => {
        #[kani::proof]
        #[kani::stub(alloc::vec::Vec::push, crate::stubs::push_no_grow)]
        #[kani::unwind(10)]
        #[kani::stub(succinctly::util::simd::x86::has_fast_bmi2, any_bool)]
        #[kani::stub(core::arch::x86_64::_pdep_u64, models::pdep_u64)]
        #[kani::stub(std_detect::detect::__is_feature_detected::avx2, yes)]
        #[kani::stub(core::arch::x86_64::_mm256_shuffle_epi8, models::mm256_shuffle_epi8)]
        #[kani::stub(core::arch::x86_64::_mm256_sad_epu8, models::mm256_sad_epu8)]
        #[allow(deprecated)]
        fn $name() {
            let w: [u64; 2] = kani::any();
            let m = masked(&w, $len);
            let bp = $ctor(vec![w[0], w[1]], $len);
            let k: usize = kani::any();
            kani::assume(k <= 131);
            let got = bp.select1(k);
            assert!(got == spec::select1(&m, $len, k));
            assert!(bp.select0(k) == d_select0(&m, $len, k));
            let p: usize = kani::any();
            kani::assume(p <= 131);
            assert!(bp.find_close(p) == d_find_close(&m, $len, p));
            kani::cover!(matches!(got, Some(x) if x >= 64));
            kani::cover!(got.is_none() && k < $len);
            core::mem::forget(bp);
        }
    };
}
#[allow(deprecated)]
fn with_select(w: Vec<u64>, len: usize) -> BalancedParens<Vec<u64>, trees::WithSelect> {
    BalancedParens::new_with_select(w, len)
}
fn cspoppy_default(w: Vec<u64>, len: usize) -> BalancedParens<Vec<u64>, trees::WithCsPoppy> {
    BalancedParens::new_with_cspoppy(w, len)
}
fn cspoppy_rate1(w: Vec<u64>, len: usize) -> BalancedParens<Vec<u64>, trees::WithCsPoppy> {
    BalancedParens::new_with_cspoppy_config(w, len, Config { select_sample_rate: 1 })
}
fn cspoppy_rate7(w: Vec<u64>, len: usize) -> BalancedParens<Vec<u64>, trees::WithCsPoppy> {
    BalancedParens::new_with_cspoppy_config(w, len, Config { select_sample_rate: 7 })
}
fn cspoppy_rate4096(w: Vec<u64>, len: usize) -> BalancedParens<Vec<u64>, trees::WithCsPoppy> {
    BalancedParens::new_with_cspoppy_config(w, len, Config { select_sample_rate: 4096 })
}
bp_select!(c04_bp_withselect_len100, 100, with_select);
bp_select!(c04_bp_cspoppy_len100, 100, cspoppy_default);
bp_select!(c04_bp_cspoppy_rate1_len100, 100, cspoppy_rate1);
bp_select!(c04_bp_cspoppy_rate7_len128, 128, cspoppy_rate7);
bp_select!(c04_bp_cspoppy_rate4096_len65, 65, cspoppy_rate4096);

#[kani::proof]
#[kani::stub(alloc::vec::Vec::push, crate::stubs::push_no_grow)]
#[kani::unwind(10)]
fn c04_witness_must_fail() {
    let w: [u64; 2] = kani::any();
    let bp = BalancedParens::new(vec![w[0], w[1]], 100);
    // wrong on purpose: claims every open in the first word closes within the first word
    let p: usize = kani::any();
    kani::assume(p < 32);
    let fc = bp.find_close(p);
    assert!(fc.is_none() || fc.unwrap() < 64);
    core::mem::forget(bp);
}

//! Independent RFC 8259 recogniser (iterative push-down automaton, explicit
//! stack, one step per byte, no recursion, nothing shared with the repository).
//!
//! `recognise` returns whether the bytes are exactly one JSON text and, when
//! they are not, the length of the longest prefix that can still be extended
//! to a JSON text (the "viable prefix"). The automaton is prefix-exact: it gets
//! stuck precisely at the first byte after which no continuation is valid, so
//! the stuck position is the viable-prefix length. Strings must be well-formed
//! UTF-8 (Unicode Table 3-7) with no raw C0 controls.

#[derive(Clone, Copy, PartialEq, Eq, Debug)]
pub enum Verdict {
    Accept,
    /// Not a JSON text; `viable` = length of the longest extendable prefix
    /// (== input length when the input is merely truncated).
    Reject { viable: usize },
}

#[derive(Clone, Copy, PartialEq, Eq)]
enum M {
    Value,    // a value must start here (after ws)
    ArrFirst, // just after '[': value or ']'
    ObjFirst, // just after '{': key string or '}'
    ObjKey,   // after ',' in an object: key string
    Colon,    // after a key: ':'
    After,    // after a complete value: ',' / close / (top level) end
    // inside tokens
    Str,      // inside a string body
    Esc,      // after a backslash
    Hex(u8),  // \u with n hex digits still required
    U8(u8, u8, u8), // inside a multi-byte character: remaining, lo, hi for the next byte
    Lit(u8, u8), // inside true/false/null: which (0,1,2), index of next expected byte
    NumMinus, // after '-'
    NumZero,  // after leading 0
    NumInt,   // in integer digits 1-9...
    NumDot,   // after '.', need a digit
    NumFrac,  // in fraction digits
    NumE,     // after e/E, need sign or digit
    NumESign, // after sign, need digit
    NumExp,   // in exponent digits
}

const LITS: [&[u8]; 3] = [b"true", b"false", b"null"];

fn ws(b: u8) -> bool {
    b == b' ' || b == b'\t' || b == b'\n' || b == b'\r'
}
fn digit(b: u8) -> bool {
    b >= b'0' && b <= b'9'
}
fn hexd(b: u8) -> bool {
    digit(b) || (b >= b'a' && b <= b'f') || (b >= b'A' && b <= b'F')
}

/// `D` = stack capacity = maximum nesting this instance can follow; nesting
/// beyond `max_depth` is a rejection (the validator's cap), as is nesting
/// beyond D (harnesses keep inputs within D).
pub fn recognise<const D: usize>(b: &[u8], max_depth: usize) -> Verdict {
    let n = b.len();
    let mut stack = [0u8; D]; // 1 = array, 2 = object
    let mut depth = 0usize;
    let mut is_key = false; // the string being read is an object key
    let mut m = M::Value;
    let mut i = 0usize;
    while i < n {
        let c = b[i];
        // number states may end without consuming: handle "end of number" first
        let number_can_end = matches!(m, M::NumZero | M::NumInt | M::NumFrac | M::NumExp);
        if number_can_end {
            let continues = match m {
                M::NumZero => c == b'.' || c == b'e' || c == b'E',
                M::NumInt => digit(c) || c == b'.' || c == b'e' || c == b'E',
                M::NumFrac => digit(c) || c == b'e' || c == b'E',
                _ => digit(c),
            };
            if !continues {
                m = M::After;
                // fall through: re-dispatch this byte in After
            }
        }
        match m {
            M::Value | M::ArrFirst | M::ObjFirst | M::ObjKey => {
                if ws(c) {
                    // stay
                } else if m == M::ArrFirst && c == b']' {
                    depth -= 1;
                    m = M::After;
                } else if m == M::ObjFirst && c == b'}' {
                    depth -= 1;
                    m = M::After;
                } else if m == M::ObjFirst || m == M::ObjKey {
                    if c == b'"' {
                        is_key = true;
                        m = M::Str;
                    } else {
                        return Verdict::Reject { viable: i };
                    }
                } else if c == b'"' {
                    is_key = false;
                    m = M::Str;
                } else if c == b'[' || c == b'{' {
                    if depth >= max_depth || depth >= D {
                        return Verdict::Reject { viable: i };
                    }
                    stack[depth] = if c == b'[' { 1 } else { 2 };
                    depth += 1;
                    m = if c == b'[' { M::ArrFirst } else { M::ObjFirst };
                } else if c == b't' {
                    m = M::Lit(0, 1);
                } else if c == b'f' {
                    m = M::Lit(1, 1);
                } else if c == b'n' {
                    m = M::Lit(2, 1);
                } else if c == b'-' {
                    m = M::NumMinus;
                } else if c == b'0' {
                    m = M::NumZero;
                } else if digit(c) {
                    m = M::NumInt;
                } else {
                    return Verdict::Reject { viable: i };
                }
            }
            M::Colon => {
                if ws(c) {
                } else if c == b':' {
                    m = M::Value;
                } else {
                    return Verdict::Reject { viable: i };
                }
            }
            M::After => {
                if ws(c) {
                } else if depth == 0 {
                    return Verdict::Reject { viable: i }; // trailing content
                } else if c == b',' {
                    m = if stack[depth - 1] == 1 { M::Value } else { M::ObjKey };
                } else if c == b']' && stack[depth - 1] == 1 {
                    depth -= 1;
                } else if c == b'}' && stack[depth - 1] == 2 {
                    depth -= 1;
                } else {
                    return Verdict::Reject { viable: i };
                }
            }
            M::Str => {
                if c == b'"' {
                    m = if is_key { M::Colon } else { M::After };
                } else if c == b'\\' {
                    m = M::Esc;
                } else if c < 0x20 {
                    return Verdict::Reject { viable: i };
                } else if c < 0x80 {
                } else if c >= 0xC2 && c <= 0xDF {
                    m = M::U8(1, 0x80, 0xBF);
                } else if c == 0xE0 {
                    m = M::U8(2, 0xA0, 0xBF);
                } else if c == 0xED {
                    m = M::U8(2, 0x80, 0x9F);
                } else if c >= 0xE1 && c <= 0xEF {
                    m = M::U8(2, 0x80, 0xBF);
                } else if c == 0xF0 {
                    m = M::U8(3, 0x90, 0xBF);
                } else if c >= 0xF1 && c <= 0xF3 {
                    m = M::U8(3, 0x80, 0xBF);
                } else if c == 0xF4 {
                    m = M::U8(3, 0x80, 0x8F);
                } else {
                    return Verdict::Reject { viable: i };
                }
            }
            M::U8(rem, lo, hi) => {
                if c >= lo && c <= hi {
                    m = if rem == 1 { M::Str } else { M::U8(rem - 1, 0x80, 0xBF) };
                } else {
                    return Verdict::Reject { viable: i };
                }
            }
            M::Esc => {
                if c == b'"' || c == b'\\' || c == b'/' || c == b'b' || c == b'f' || c == b'n' || c == b'r' || c == b't' {
                    m = M::Str;
                } else if c == b'u' {
                    m = M::Hex(4);
                } else {
                    return Verdict::Reject { viable: i };
                }
            }
            M::Hex(k) => {
                if hexd(c) {
                    m = if k == 1 { M::Str } else { M::Hex(k - 1) };
                } else {
                    return Verdict::Reject { viable: i };
                }
            }
            M::Lit(which, k) => {
                let lit = LITS[which as usize];
                if c == lit[k as usize] {
                    m = if k as usize + 1 == lit.len() { M::After } else { M::Lit(which, k + 1) };
                } else {
                    return Verdict::Reject { viable: i };
                }
            }
            M::NumMinus => {
                if c == b'0' {
                    m = M::NumZero;
                } else if digit(c) {
                    m = M::NumInt;
                } else {
                    return Verdict::Reject { viable: i };
                }
            }
            M::NumZero | M::NumInt => {
                // only continuing bytes reach here
                if c == b'.' {
                    m = M::NumDot;
                } else if c == b'e' || c == b'E' {
                    m = M::NumE;
                } // else digit in NumInt: stay
            }
            M::NumDot => {
                if digit(c) {
                    m = M::NumFrac;
                } else {
                    return Verdict::Reject { viable: i };
                }
            }
            M::NumFrac => {
                if c == b'e' || c == b'E' {
                    m = M::NumE;
                }
            }
            M::NumE => {
                if c == b'+' || c == b'-' {
                    m = M::NumESign;
                } else if digit(c) {
                    m = M::NumExp;
                } else {
                    return Verdict::Reject { viable: i };
                }
            }
            M::NumESign => {
                if digit(c) {
                    m = M::NumExp;
                } else {
                    return Verdict::Reject { viable: i };
                }
            }
            M::NumExp => {}
        }
        i += 1;
    }
    let complete = matches!(m, M::After | M::NumZero | M::NumInt | M::NumFrac | M::NumExp) && depth == 0;
    if complete {
        Verdict::Accept
    } else {
        Verdict::Reject { viable: n }
    }
}

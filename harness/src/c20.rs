//! C20 — DSV index does not depend on the indexing engine.

use crate::models;
use crate::stubs::{any_bool, no, yes};
use succinctly::dsv::{self, DsvConfig, DsvIndex};
use succinctly::verif_hooks as hk;

/// Byte-at-a-time definition: a quote byte toggles the quoted state first; a
/// delimiter or record separator outside quotes is a marker; a record separator
/// outside quotes is a newline. Returned as LSB-first bit words.
fn spec_words<const N: usize, const W: usize>(t: &[u8; N], d: u8, q: u8, nl: u8) -> ([u64; W], [u64; W]) {
    let mut markers = [0u64; W];
    let mut newlines = [0u64; W];
    let mut inq = false;
    let mut i = 0;
    while i < N {
        let b = t[i];
        if b == q {
            inq = !inq;
        }
        if !inq {
            if b == d || b == nl {
                markers[i / 64] |= 1u64 << (i % 64);
            }
            if b == nl {
                newlines[i / 64] |= 1u64 << (i % 64);
            }
        }
        i += 1;
    }
    (markers, newlines)
}

fn cfg() -> DsvConfig {
    let d: u8 = kani::any();
    let q: u8 = kani::any();
    let n: u8 = kani::any();
    kani::assume(d != q && d != n && q != n);
    DsvConfig { delimiter: d, quote_char: q, newline: n }
}

fn same_as_spec<const W: usize>(idx: &DsvIndex, n: usize, m: &[u64; W], nl: &[u64; W]) {
    let lw = idx.as_lightweight();
    assert!(lw.text_len == n);
    assert!(lw.markers.len() == W);
    assert!(lw.newlines.len() == W);
    let mut i = 0;
    while i < W {
        assert!(lw.markers[i] == m[i]);
        assert!(lw.newlines[i] == nl[i]);
        i += 1;
    }
}

macro_rules! engine {
    ($name:ident, $n:expr, $w:expr, $build:path, $($stub:meta),*) => {
        #[kani::proof]
        #[kani::stub(alloc::vec::Vec::push, crate::stubs::push_no_grow)]
        #[kani::unwind(5)]
        $(#[$stub])*
        fn $name() {
            let t: [u8; $n] = kani::any();
            let c = cfg();
            let (m, nl) = spec_words::<$n, $w>(&t, c.delimiter, c.quote_char, c.newline);
            let idx = $build(&t, &c);
            same_as_spec::<$w>(&idx, $n, &m, &nl);
            // a quoted region that is still open at the 64-byte chunk boundary
            kani::cover!($n <= 64 || (t[3] == c.quote_char && t[63] != c.quote_char && (nl[$w - 1] != 0 || m[$w - 1] != 0)));
            kani::cover!(m[0] != 0 && nl[0] != 0);
            core::mem::forget(idx);
        }
    };
}
// scalar reference against the definition
engine!(c20_scalar_70, 70, 2, dsv::build_index_scalar,);
engine!(c20_scalar_5, 5, 1, dsv::build_index_scalar,);
// each SIMD engine against the definition: one full 64-byte chunk + carry + tail
engine!(c20_sse2_70, 70, 2, dsv::simd::sse2::build_index_simd,);
engine!(c20_avx2_70, 70, 2, dsv::simd::avx2::build_index_simd,);
engine!(c20_bmi2_70, 70, 2, dsv::simd::bmi2::build_index_simd,
    kani::stub(core::arch::x86_64::_pdep_u64, models::pdep_u64));
engine!(c20_sse2_64, 64, 1, dsv::simd::sse2::build_index_simd,);
engine!(c20_avx2_64, 64, 1, dsv::simd::avx2::build_index_simd,);
engine!(c20_bmi2_64, 64, 1, dsv::simd::bmi2::build_index_simd,
    kani::stub(core::arch::x86_64::_pdep_u64, models::pdep_u64));
engine!(c20_sse2_63, 63, 1, dsv::simd::sse2::build_index_simd,);
engine!(c20_avx2_65, 65, 2, dsv::simd::avx2::build_index_simd,);
engine!(c20_bmi2_65, 65, 2, dsv::simd::bmi2::build_index_simd,
    kani::stub(core::arch::x86_64::_pdep_u64, models::pdep_u64));
engine!(c20_sse2_130, 130, 3, dsv::simd::sse2::build_index_simd,);
engine!(c20_avx2_130, 130, 3, dsv::simd::avx2::build_index_simd,);
engine!(c20_bmi2_130, 130, 3, dsv::simd::bmi2::build_index_simd,
    kani::stub(core::arch::x86_64::_pdep_u64, models::pdep_u64));
engine!(c20_avx2_7, 7, 1, dsv::simd::avx2::build_index_simd,);
// the runtime dispatcher, hardware probes chosen by the solver
engine!(c20_dispatch_70, 70, 2, dsv::build_index,
    kani::stub(succinctly::util::simd::x86::has_fast_bmi2, any_bool),
    kani::stub(std_detect::detect::__is_feature_detected::avx2, any_bool),
    kani::stub(core::arch::x86_64::_pdep_u64, models::pdep_u64));

/// The empty text on every engine.
#[kani::proof]
#[kani::stub(alloc::vec::Vec::push, crate::stubs::push_no_grow)]
#[kani::unwind(5)]
#[kani::stub(core::arch::x86_64::_pdep_u64, models::pdep_u64)]
fn c20_empty() {
    let c = cfg();
    let t: [u8; 0] = [];
    let a = dsv::build_index_scalar(&t, &c);
    let b = dsv::simd::sse2::build_index_simd(&t, &c);
    let d = dsv::simd::avx2::build_index_simd(&t, &c);
    let e = dsv::simd::bmi2::build_index_simd(&t, &c);
    assert!(a.is_empty() && b.is_empty() && d.is_empty() && e.is_empty());
    assert!(a.marker_count() == 0 && b.marker_count() == 0 && d.marker_count() == 0 && e.marker_count() == 0);
    assert!(a.row_count() == 0 && e.row_count() == 0);
}

// ---- kernel step: quote-mask toggling over one 64-bit chunk ---------------------------

/// Bit-serial definition: `carry` = inside quotes on entry; returns the mask of
/// positions outside quotes (a quote toggles before its own position is classified)
/// and the state on exit.
fn toggle_spec(carry: u64, quote_mask: u64) -> (u64, u64) {
    let mut inside = carry & 1 == 1;
    let mut outside = 0u64;
    let mut i = 0;
    while i < 64 {
        if (quote_mask >> i) & 1 == 1 {
            inside = !inside;
        }
        if !inside {
            outside |= 1u64 << i;
        }
        i += 1;
    }
    (outside, inside as u64)
}

#[kani::proof]
#[kani::stub(alloc::vec::Vec::push, crate::stubs::push_no_grow)]
#[kani::unwind(66)]
fn c20_toggle64_scalar() {
    let c: u64 = kani::any();
    let m: u64 = kani::any();
    let got = hk::toggle64_scalar(c, m);
    assert!(got == toggle_spec(c, m));
    kani::cover!(m >> 63 == 1 && got.1 == 1);
}

#[kani::proof]
#[kani::stub(alloc::vec::Vec::push, crate::stubs::push_no_grow)]
#[kani::unwind(66)]
#[kani::stub(core::arch::x86_64::_pdep_u64, models::pdep_u64)]
fn c20_toggle64_bmi2() {
    let c: u64 = kani::any();
    let m: u64 = kani::any();
    let got = unsafe { hk::toggle64_bmi2(c, m) };
    assert!(got == toggle_spec(c, m));
    kani::cover!(m >> 63 == 1 && got.1 == 1 && c & 1 == 0);
}

#[kani::proof]
#[kani::stub(alloc::vec::Vec::push, crate::stubs::push_no_grow)]
#[kani::unwind(66)]
fn c20_prefix_xor() {
    let x: u64 = kani::any();
    let got = hk::prefix_xor(x);
    let mut parity = 0u64;
    let mut want = 0u64;
    let mut i = 0;
    while i < 64 {
        parity ^= (x >> i) & 1;
        want |= parity << i;
        i += 1;
    }
    assert!(got == want);
}

/// rank/select of the index are functions of the marker/newline words (checked
/// against bit counting), so indexes with equal words answer identically.
#[kani::proof]
#[kani::stub(alloc::vec::Vec::push, crate::stubs::push_no_grow)]
#[kani::unwind(5)]
fn c20_index_rank_select_70() {
    let t: [u8; 70] = kani::any();
    let c = cfg();
    let (m, nl) = spec_words::<70, 2>(&t, c.delimiter, c.quote_char, c.newline);
    let idx = dsv::build_index_scalar(&t, &c);
    let i: usize = kani::any();
    kani::assume(i <= 80);
    let lim = if i < 70 { i } else { 70 };
    assert!(idx.markers_rank1(i) == crate::spec::rank1(&m, lim));
    assert!(idx.newlines_rank1(i) == crate::spec::rank1(&nl, lim));
    let k: usize = kani::any();
    kani::assume(k <= 80);
    let sm = idx.markers_select1(k);
    let sn = idx.newlines_select1(k);
    assert!(sm == crate::spec::select1(&m, 70, k));
    assert!(sn == crate::spec::select1(&nl, 70, k));
    assert!(idx.marker_count() == crate::spec::rank1(&m, 70));
    assert!(idx.row_count() == crate::spec::rank1(&nl, 70));
    kani::cover!(matches!(sm, Some(p) if p > 64));
    kani::cover!(matches!(sn, Some(p) if p > 64 && k > 2));
    core::mem::forget(idx);
}

#[kani::proof]
#[kani::stub(alloc::vec::Vec::push, crate::stubs::push_no_grow)]
#[kani::unwind(66)]
fn c20_witness_must_fail() {
    let c: u64 = kani::any();
    let m: u64 = kani::any();
    // wrong on purpose: claims the carry out never differs from the carry in
    assert!(hk::toggle64_scalar(c, m).1 == c & 1);
}

//! C17 — YAML position tables return recorded positions under any access order.

use crate::models;
use crate::stubs::{any_bool, no, yes};
use succinctly::verif_hooks::{EndPositions, OpenPositions};

/// Start positions: every lookup history (i1; i2; i3) over arbitrary positions
/// (monotone -> compact encoding, non-monotone -> dense fallback, duplicates,
/// positions up to and including text_len).
macro_rules! open3 {
    ($name:ident, $n:expr, $tl:expr, $maxpos:expr) => {
        #[kani::proof]
        #[kani::stub(alloc::vec::Vec::push, crate::stubs::push_no_grow)]
        #[kani::unwind(8)]
        #[kani::stub(succinctly::util::broadword::select_in_word, crate::stubs::select_in_word_contract)]
        #[kani::stub(succinctly::bits::scan::scan_select, crate::stubs::scan_select_model)]
        fn $name() {
            let pos: [u32; $n] = kani::any();
            let mut j = 0;
            while j < $n {
                kani::assume(pos[j] <= $maxpos);
                j += 1;
            }
            let op = OpenPositions::build(&pos, $tl);
            assert!(op.len() == $n);
            let i1: usize = kani::any();
            let i2: usize = kani::any();
            let i3: usize = kani::any();
            kani::assume(i1 <= $n + 1 && i2 <= $n + 1 && i3 <= $n + 1);
            let a1 = op.get(i1);
            let a2 = op.get(i2);
            let a3 = op.get(i3);
            assert!(a1 == if i1 < $n { Some(pos[i1]) } else { None });
            assert!(a2 == if i2 < $n { Some(pos[i2]) } else { None });
            assert!(a3 == if i3 < $n { Some(pos[i3]) } else { None });
            kani::cover!(op.is_compact() && i2 < i1 && i3 == i2 + 1 && i3 < $n);
            kani::cover!(!op.is_compact());
            kani::cover!(op.is_compact() && i1 == 0 && i2 == 2 && i3 == 2);
            core::mem::forget(op);
        }
    };
}
open3!(c17_open3_n4_tl100, 4, 100, 99);
open3!(c17_open3_n5_tl128_max127, 5, 128, 127);
open3!(c17_open3_n4_tl64_max63, 4, 64, 63);
// positions equal to the text length
open3!(c17_open3_n4_tl100_eof, 4, 100, 100);
open3!(c17_open3_n4_tl64_eof, 4, 64, 64);

/// End positions: node with a recorded end (non-zero) -> exactly that end; node
/// without one -> None or the end recorded for the nearest earlier node.
macro_rules! end3 {
    ($name:ident, $n:expr, $tl:expr, $maxpos:expr) => {
        #[kani::proof]
        #[kani::stub(alloc::vec::Vec::push, crate::stubs::push_no_grow)]
        #[kani::unwind(8)]
        #[kani::stub(succinctly::util::broadword::select_in_word, crate::stubs::select_in_word_contract)]
        #[kani::stub(succinctly::bits::scan::scan_select, crate::stubs::scan_select_model)]
        fn $name() {
            let pos: [u32; $n] = kani::any();
            let mut j = 0;
            while j < $n {
                kani::assume(pos[j] <= $maxpos);
                j += 1;
            }
            let ep = EndPositions::build(&pos, $tl);
            let i1: usize = kani::any();
            let i2: usize = kani::any();
            let i3: usize = kani::any();
            kani::assume(i1 <= $n + 1 && i2 <= $n + 1 && i3 <= $n + 1);
            let a1 = ep.get(i1);
            let a2 = ep.get(i2);
            let a3 = ep.get(i3);
            assert!(end_ok(&pos, i1, a1));
            assert!(end_ok(&pos, i2, a2));
            assert!(end_ok(&pos, i3, a3));
            kani::cover!(i2 < i1 && i3 == i2 + 1 && i3 < $n && pos[i3] > 0 && pos[0] > 0 && pos[0] < pos[1]);
            kani::cover!(i1 < $n && pos[i1] == 0 && a1.is_some());
            core::mem::forget(ep);
        }
    };
}
fn end_ok<const N: usize>(pos: &[u32; N], i: usize, got: Option<usize>) -> bool {
    if i >= N {
        return got.is_none();
    }
    if pos[i] > 0 {
        return got == Some(pos[i] as usize);
    }
    // no end recorded: None, or the nearest earlier recorded end
    let mut prev = 0u32;
    let mut j = 0;
    while j < i {
        if pos[j] > 0 {
            prev = pos[j];
        }
        j += 1;
    }
    match got {
        None => true,
        Some(e) => prev > 0 && e == prev as usize,
    }
}
end3!(c17_end3_n4_tl100, 4, 100, 100);
end3!(c17_end3_n5_tl128, 5, 128, 128);
end3!(c17_end3_n4_tl64, 4, 64, 64);
end3!(c17_end3_n4_tl63, 4, 63, 63);

// ---- one-step induction over lookup histories ------------------------------------------
//
// The sequential cursor makes answers history dependent. Instead of enumerating
// histories, start from an ARBITRARY cursor state that satisfies the
// representation invariant (seeded through the verif-hooks setter), perform one
// arbitrary lookup, and show (a) the answer is the recorded position and (b)
// the invariant holds again. The initial state satisfies the invariant, so every
// finite history follows.

/// Oracle view of the encoding, recomputed from the positions: which opens
/// advance, and the interest bits (distinct positions) as two 64-bit words.
struct Enc<const N: usize> {
    eff: [u32; N],
    adv: [bool; N],
    ib: [u64; 3],
}
fn enc_open<const N: usize>(pos: &[u32; N]) -> Enc<N> {
    let mut e = Enc { eff: *pos, adv: [false; N], ib: [0; 3] };
    let mut i = 0;
    while i < N {
        e.adv[i] = i == 0 || pos[i] != pos[i - 1];
        e.ib[(pos[i] / 64) as usize] |= 1u64 << (pos[i] % 64);
        i += 1;
    }
    e
}
fn enc_end<const N: usize>(pos: &[u32; N]) -> Enc<N> {
    let mut e = Enc { eff: [0; N], adv: [false; N], ib: [0; 3] };
    let mut prev = 0u32;
    let mut i = 0;
    while i < N {
        let eff = if pos[i] > 0 { pos[i] } else { prev };
        e.eff[i] = eff;
        e.adv[i] = eff != 0 && (i == 0 || eff != e.eff[i - 1]);
        if eff != 0 {
            e.ib[(eff / 64) as usize] |= 1u64 << (eff % 64);
            prev = eff;
        }
        i += 1;
    }
    e
}
fn rank_adv<const N: usize>(e: &Enc<N>, j: usize) -> usize {
    let mut c = 0;
    let mut i = 0;
    while i < N {
        if i < j && e.adv[i] {
            c += 1;
        }
        i += 1;
    }
    c
}
fn ones_before_word(ib: &[u64; 3], w: usize) -> usize {
    let mut c = 0usize;
    let mut i = 0;
    while i < 3 {
        if i < w {
            c += ib[i].count_ones() as usize;
        }
        i += 1;
    }
    c
}
type St = (usize, usize, usize, usize, usize, usize);
/// Representation invariant of the sequential cursor.
fn inv<const N: usize>(e: &Enc<N>, nwords: usize, s: St) -> bool {
    let (next, adv_cum, wi, ones_before, last_arg, last_res) = s;
    if next > N || wi > nwords {
        return false;
    }
    if adv_cum != rank_adv(e, next) {
        return false;
    }
    if ones_before != ones_before_word(&e.ib, wi) {
        return false;
    }
    // the next interest bit that can be asked for is not behind the scan position
    let kmin = if adv_cum == 0 { 0 } else { adv_cum - 1 };
    if ones_before > kmin {
        return false;
    }
    if last_arg != usize::MAX {
        // last_res is the position of the last_arg-th interest bit
        let w = last_res / 64;
        let b = last_res % 64;
        if w >= 3 || (e.ib[w] >> b) & 1 == 0 {
            return false;
        }
        if ones_before_word(&e.ib, w) + (e.ib[w] & ((1u64 << b) - 1)).count_ones() as usize != last_arg {
            return false;
        }
    }
    true
}

/// Interest-bit words of the table under test, shared with the select model.
static mut IBW: [u64; 3] = [0; 3];
/// Specification of the tables' private sampled select (`ib_select1_with_state`):
/// position of the k-th interest bit, the index of its word, and the number of
/// interest bits before that word. In the step harnesses the real function is
/// replaced by this (its SAT encoding alone exceeds 40 GB); the real one is
/// decided against the same model in `c17_ib_select_*`.
fn ib_select_spec(k: usize) -> Option<(usize, usize, usize)> {
    let ib = unsafe { IBW };
    let mut before = 0usize;
    let mut w = 0;
    while w < 3 {
        let pop = ib[w].count_ones() as usize;
        if k < before + pop {
            let bit = crate::stubs::select_in_word_contract(ib[w], (k - before) as u32) as usize;
            return Some((w * 64 + bit, w, before));
        }
        before += pop;
        w += 1;
    }
    None
}
fn ib_select_model_open(_t: &succinctly::verif_hooks::AdvancePositions, k: usize) -> Option<(usize, usize, usize)> {
    ib_select_spec(k)
}
fn ib_select_model_end(_t: &succinctly::verif_hooks::CompactEndPositions, k: usize) -> Option<(usize, usize, usize)> {
    ib_select_spec(k)
}

/// Symbolic indices into the tables' heap arrays (the lookup index, the cursor's
/// word index) make the SAT encoding explode (one lookup: > 20 GB), while the same
/// lookup with a concrete index costs about 20k program steps. So both are case
/// split in the harness: every branch calls the real code with constants, and the
/// solver still ranges over all branches.
macro_rules! split_get {
    ($t:expr, $i:expr) => {
        match $i {
            0 => $t.get(0),
            1 => $t.get(1),
            2 => $t.get(2),
            3 => $t.get(3),
            4 => $t.get(4),
            5 => $t.get(5),
            6 => $t.get(6),
            _ => $t.get(7),
        }
    };
}
macro_rules! seed_and_get {
    ($t:expr, $s:expr, $i:expr) => {
        match $s.2 {
            0 => {
                $t.verif_set_cursor_state(($s.0, $s.1, 0, $s.3, $s.4, $s.5));
                split_get!($t, $i)
            }
            1 => {
                $t.verif_set_cursor_state(($s.0, $s.1, 1, $s.3, $s.4, $s.5));
                split_get!($t, $i)
            }
            2 => {
                $t.verif_set_cursor_state(($s.0, $s.1, 2, $s.3, $s.4, $s.5));
                split_get!($t, $i)
            }
            _ => {
                $t.verif_set_cursor_state(($s.0, $s.1, 3, $s.3, $s.4, $s.5));
                split_get!($t, $i)
            }
        }
    };
}

macro_rules! open_step {
    ($name:ident, $n:expr, $tl:expr, $maxpos:expr) => {
        #[kani::proof]
        #[kani::stub(alloc::vec::Vec::push, crate::stubs::push_no_grow)]
        #[kani::unwind(8)]
        #[kani::stub(succinctly::util::broadword::select_in_word, crate::stubs::select_in_word_contract)]
        #[kani::stub(succinctly::bits::scan::scan_select, crate::stubs::scan_select_model)]
        #[kani::stub(succinctly::yaml::advance_positions::AdvancePositions::ib_select1_with_state, ib_select_model_open)]
        fn $name() {
            let pos: [u32; $n] = kani::any();
            let mut j = 0;
            while j < $n {
                kani::assume(pos[j] <= $maxpos);
                if j > 0 {
                    kani::assume(pos[j - 1] <= pos[j]);
                }
                j += 1;
            }
            let e = enc_open::<$n>(&pos);
            unsafe {
                IBW = e.ib;
            }
            // monotone input: this is the table OpenPositions::build wraps as `Compact`
            let ap = succinctly::verif_hooks::AdvancePositions::build_unchecked(&pos, $tl);
            let nwords = ($tl + 63) / 64;
            // arbitrary cursor state satisfying the invariant
            let s: St = (kani::any(), kani::any(), kani::any(), kani::any(), kani::any(), kani::any());
            kani::assume(inv(&e, nwords, s));
            let i: usize = kani::any();
            kani::assume(i <= $n + 1);
            let got = seed_and_get!(ap, s, i);
            assert!(got == if i < $n { Some(pos[i]) } else { None });
            assert!(inv(&e, nwords, ap.verif_cursor_state()));
            kani::cover!(i < s.0 && i < $n);
            kani::cover!(i == s.0 && s.4 != usize::MAX && i < $n);
            kani::cover!(i > s.0 + 1 && i < $n);
            core::mem::forget(ap);
        }
    };
}
open_step!(c17_open_step_n4_tl100, 4, 100, 99);
open_step!(c17_open_step_n5_tl128, 5, 128, 127);
open_step!(c17_open_step_n4_tl64, 4, 64, 63);
open_step!(c17_open_step_n6_tl100, 6, 100, 99);
// positions may equal the text length
open_step!(c17_open_step_n4_tl100_eof, 4, 100, 100);
open_step!(c17_open_step_n4_tl64_eof, 4, 64, 64);

/// The constructor's cursor state satisfies the invariant (base case), and
/// OpenPositions picks the compact table exactly for monotone input.
#[kani::proof]
#[kani::stub(alloc::vec::Vec::push, crate::stubs::push_no_grow)]
#[kani::unwind(8)]
#[kani::stub(succinctly::util::broadword::select_in_word, crate::stubs::select_in_word_contract)]
fn c17_open_init_inv_n4() {
    let pos: [u32; 4] = kani::any();
    kani::assume(pos[0] <= 100 && pos[1] <= 100 && pos[2] <= 100 && pos[3] <= 100);
    let mono = pos[0] <= pos[1] && pos[1] <= pos[2] && pos[2] <= pos[3];
    let op = OpenPositions::build(&pos, 100);
    assert!(op.is_compact() == mono);
    assert!(op.len() == 4 && !op.is_empty());
    if let OpenPositions::Compact(ap) = &op {
        let e = enc_open::<4>(&pos);
        assert!(inv(&e, 2, ap.verif_cursor_state()));
    }
    kani::cover!(mono);
    kani::cover!(!mono);
    core::mem::forget(op);
}

macro_rules! end_step {
    ($name:ident, $n:expr, $tl:expr, $maxpos:expr) => {
        #[kani::proof]
        #[kani::stub(alloc::vec::Vec::push, crate::stubs::push_no_grow)]
        #[kani::unwind(8)]
        #[kani::stub(succinctly::util::broadword::select_in_word, crate::stubs::select_in_word_contract)]
        #[kani::stub(succinctly::bits::scan::scan_select, crate::stubs::scan_select_model)]
        #[kani::stub(succinctly::yaml::end_positions::CompactEndPositions::ib_select1_with_state, ib_select_model_end)]
        fn $name() {
            let pos: [u32; $n] = kani::any();
            // non-zero entries non-decreasing (compact encoding), zero = no end recorded
            let mut prev = 0u32;
            let mut j = 0;
            while j < $n {
                kani::assume(pos[j] <= $maxpos);
                if pos[j] > 0 {
                    kani::assume(pos[j] >= prev);
                    prev = pos[j];
                }
                j += 1;
            }
            kani::assume(prev > 0); // at least one recorded end (otherwise the table is empty)
            let e = enc_end::<$n>(&pos);
            unsafe {
                IBW = e.ib;
            }
            // the compact table EndPositions::build boxes for monotone input, taken unboxed
            // (through the hook): behind the Box every cursor update is a write through a
            // heap pointer and the same lookup costs 21 M instead of 0.4 M SAT variables
            let built = succinctly::verif_hooks::CompactEndPositions::verif_try_build(&pos, $tl);
            assert!(built.is_some());
            let c = built.unwrap();
            let nwords = ($tl + 1 + 63) / 64;
            let s: St = (kani::any(), kani::any(), kani::any(), kani::any(), kani::any(), kani::any());
            kani::assume(inv(&e, nwords, s));
            let i: usize = kani::any();
            kani::assume(i <= $n + 1);
            let got = seed_and_get!(c, s, i);
            assert!(end_ok(&pos, i, got));
            assert!(inv(&e, nwords, c.verif_cursor_state()));
            kani::cover!(i < s.0 && i < $n && pos[i] > 0);
            kani::cover!(i == s.0 && i < $n && pos[i] == 0 && got.is_some());
            core::mem::forget(c);
        }
    };
}
end_step!(c17_end_step_n4_tl100, 4, 100, 100);
end_step!(c17_end_step_n5_tl128, 5, 128, 128);
end_step!(c17_end_step_n4_tl64, 4, 64, 64);
end_step!(c17_end_step_n4_tl63, 4, 63, 63);

#[kani::proof]
#[kani::stub(alloc::vec::Vec::push, crate::stubs::push_no_grow)]
#[kani::unwind(8)]
#[kani::stub(succinctly::util::broadword::select_in_word, crate::stubs::select_in_word_contract)]
fn c17_end_init_inv_n4() {
    let pos: [u32; 4] = kani::any();
    kani::assume(pos[0] <= 100 && pos[1] <= 100 && pos[2] <= 100 && pos[3] <= 100);
    let ep = EndPositions::build(&pos, 100);
    if let EndPositions::Compact(c) = &ep {
        let e = enc_end::<4>(&pos);
        if e.eff[3] != 0 {
            assert!(inv(&e, 2, c.verif_cursor_state()));
        }
    }
    kani::cover!(matches!(&ep, EndPositions::Compact(_)) && pos[3] > 0 && pos[0] == 0);
    core::mem::forget(ep);
}

/// Non-monotone inputs take the dense fallback, which has no cursor: any index.
#[kani::proof]
#[kani::stub(alloc::vec::Vec::push, crate::stubs::push_no_grow)]
#[kani::unwind(8)]
fn c17_dense_fallback_n4() {
    let pos: [u32; 4] = kani::any();
    kani::assume(pos[0] <= 100 && pos[1] <= 100 && pos[2] <= 100 && pos[3] <= 100);
    kani::assume(pos[0] > pos[1] || pos[1] > pos[2] || pos[2] > pos[3]);
    let op = OpenPositions::build(&pos, 100);
    assert!(!op.is_compact());
    let i: usize = kani::any();
    assert!(op.get(i) == if i < 4 { Some(pos[i]) } else { None });
    // ends: non-monotone among the non-zero entries
    kani::assume(pos[0] > 0 && pos[1] > 0 && pos[2] > 0 && pos[3] > 0);
    let ep = EndPositions::build(&pos, 100);
    assert!(matches!(ep, EndPositions::Dense(_)));
    assert!(end_ok(&pos, i, ep.get(i)));
    core::mem::forget(op);
    core::mem::forget(ep);
}

#[kani::proof]
#[kani::stub(alloc::vec::Vec::push, crate::stubs::push_no_grow)]
#[kani::unwind(8)]
#[kani::stub(succinctly::util::broadword::select_in_word, crate::stubs::select_in_word_contract)]
#[kani::stub(succinctly::bits::scan::scan_select, crate::stubs::scan_select_model)]
fn c17_witness_must_fail() {
    let pos: [u32; 3] = kani::any();
    kani::assume(pos[0] <= 50 && pos[1] <= 50 && pos[2] <= 50);
    let op = OpenPositions::build(&pos, 64);
    // wrong on purpose: claims positions are strictly increasing
    assert!(op.get(1).unwrap() > op.get(0).unwrap());
    core::mem::forget(op);
}




/// The real sampled select of both tables against the model the step harnesses
/// substitute, every k (case split: symbolic k is what explodes).
macro_rules! ib_select {
    ($name:ident, $n:expr, $tl:expr, $maxpos:expr) => {
        #[kani::proof]
        #[kani::stub(alloc::vec::Vec::push, crate::stubs::push_no_grow)]
        #[kani::unwind(8)]
        #[kani::stub(succinctly::util::broadword::select_in_word, crate::stubs::select_in_word_contract)]
        fn $name() {
            let pos: [u32; $n] = kani::any();
            let mut j = 0;
            while j < $n {
                kani::assume(pos[j] <= $maxpos && pos[j] >= 1);
                if j > 0 {
                    kani::assume(pos[j - 1] <= pos[j]);
                }
                j += 1;
            }
            let e = enc_open::<$n>(&pos);
            unsafe {
                IBW = e.ib;
            }
            let k: usize = kani::any();
            kani::assume(k <= $n + 1);
            let ap = succinctly::verif_hooks::AdvancePositions::build_unchecked(&pos, $tl);
            let got = match k {
                0 => ap.verif_ib_select1_with_state(0),
                1 => ap.verif_ib_select1_with_state(1),
                2 => ap.verif_ib_select1_with_state(2),
                3 => ap.verif_ib_select1_with_state(3),
                4 => ap.verif_ib_select1_with_state(4),
                5 => ap.verif_ib_select1_with_state(5),
                6 => ap.verif_ib_select1_with_state(6),
                _ => ap.verif_ib_select1_with_state(7),
            };
            assert!(got == ib_select_spec(k));
            // same bits, end-position table (positions >= 1 are all recorded ends)
            if let EndPositions::Compact(c) = &EndPositions::build(&pos, $tl) {
                let got_e = match k {
                    0 => c.verif_ib_select1_with_state(0),
                    1 => c.verif_ib_select1_with_state(1),
                    2 => c.verif_ib_select1_with_state(2),
                    3 => c.verif_ib_select1_with_state(3),
                    4 => c.verif_ib_select1_with_state(4),
                    5 => c.verif_ib_select1_with_state(5),
                    6 => c.verif_ib_select1_with_state(6),
                    _ => c.verif_ib_select1_with_state(7),
                };
                assert!(got_e == ib_select_spec(k));
            } else {
                assert!(false);
            }
            kani::cover!(matches!(got, Some((p, 1, b)) if p >= 64 && b > 0));
            kani::cover!(got.is_none() && k < $n);
            core::mem::forget(ap);
        }
    };
}
ib_select!(c17_ib_select_n4_tl100, 4, 100, 99);
ib_select!(c17_ib_select_n5_tl128, 5, 128, 127);


/// Every 2-lookup history (i1; i2) from the fresh state on the end-position
/// table, both indices case split (quick-tier companion of the induction).
macro_rules! get4 {
    ($t:expr, $i:expr) => {
        match $i {
            0 => $t.get(0),
            1 => $t.get(1),
            2 => $t.get(2),
            3 => $t.get(3),
            _ => $t.get(4),
        }
    };
}
#[kani::proof]
#[kani::stub(alloc::vec::Vec::push, crate::stubs::push_no_grow)]
#[kani::unwind(8)]
#[kani::stub(succinctly::util::broadword::select_in_word, crate::stubs::select_in_word_contract)]
#[kani::stub(succinctly::yaml::end_positions::CompactEndPositions::ib_select1_with_state, ib_select_model_end)]
fn c17_end2_n4_tl100() {
    let pos: [u32; 4] = kani::any();
    let mut prev = 0u32;
    let mut j = 0;
    while j < 4 {
        kani::assume(pos[j] <= 100);
        if pos[j] > 0 {
            kani::assume(pos[j] >= prev);
            prev = pos[j];
        }
        j += 1;
    }
    kani::assume(prev > 0);
    unsafe {
        IBW = enc_end::<4>(&pos).ib;
    }
    let c = succinctly::verif_hooks::CompactEndPositions::verif_try_build(&pos, 100).unwrap();
    let i1: usize = kani::any();
    let i2: usize = kani::any();
    kani::assume(i1 <= 4 && i2 <= 4);
    let a1 = match i1 {
        0 => {
            let a = c.get(0);
            (a, get4!(c, i2))
        }
        1 => {
            let a = c.get(1);
            (a, get4!(c, i2))
        }
        2 => {
            let a = c.get(2);
            (a, get4!(c, i2))
        }
        3 => {
            let a = c.get(3);
            (a, get4!(c, i2))
        }
        _ => {
            let a = c.get(4);
            (a, get4!(c, i2))
        }
    };
    assert!(end_ok(&pos, i1, a1.0));
    assert!(end_ok(&pos, i2, a1.1));
    kani::cover!(i1 == 0 && i2 == 3 && pos[3] == pos[2] && pos[1] < pos[2] && pos[0] > 0);
    kani::cover!(i1 == 3 && i2 == 1);
    core::mem::forget(c);
}

/// Single lookups from the fresh state on the end-position table, every index.
#[kani::proof]
#[kani::stub(alloc::vec::Vec::push, crate::stubs::push_no_grow)]
#[kani::unwind(8)]
#[kani::stub(succinctly::util::broadword::select_in_word, crate::stubs::select_in_word_contract)]
#[kani::stub(succinctly::yaml::end_positions::CompactEndPositions::ib_select1_with_state, ib_select_model_end)]
fn c17_end1_n4_tl100() {
    let pos: [u32; 4] = kani::any();
    let mut prev = 0u32;
    let mut j = 0;
    while j < 4 {
        kani::assume(pos[j] <= 100);
        if pos[j] > 0 {
            kani::assume(pos[j] >= prev);
            prev = pos[j];
        }
        j += 1;
    }
    kani::assume(prev > 0);
    unsafe {
        IBW = enc_end::<4>(&pos).ib;
    }
    let c = succinctly::verif_hooks::CompactEndPositions::verif_try_build(&pos, 100).unwrap();
    let i: usize = kani::any();
    kani::assume(i <= 4);
    let a = get4!(c, i);
    assert!(end_ok(&pos, i, a));
    kani::cover!(i == 3 && pos[3] == 0 && a.is_some());
    kani::cover!(i == 2 && pos[2] == 100);
    core::mem::forget(c);
}

/// Every 2-lookup history (i1; i2) on a 3-entry end-position table (small enough
/// for the quick tier; a gap lookup after a cached one is already possible).
#[kani::proof]
#[kani::stub(alloc::vec::Vec::push, crate::stubs::push_no_grow)]
#[kani::unwind(8)]
#[kani::stub(succinctly::util::broadword::select_in_word, crate::stubs::select_in_word_contract)]
#[kani::stub(succinctly::yaml::end_positions::CompactEndPositions::ib_select1_with_state, ib_select_model_end)]
fn c17_end2_n3_tl60() {
    let pos: [u32; 3] = kani::any();
    let mut prev = 0u32;
    let mut j = 0;
    while j < 3 {
        kani::assume(pos[j] <= 60);
        if pos[j] > 0 {
            kani::assume(pos[j] >= prev);
            prev = pos[j];
        }
        j += 1;
    }
    kani::assume(prev > 0);
    unsafe {
        IBW = enc_end::<3>(&pos).ib;
    }
    let c = succinctly::verif_hooks::CompactEndPositions::verif_try_build(&pos, 60).unwrap();
    let i1: usize = kani::any();
    let i2: usize = kani::any();
    kani::assume(i1 <= 3 && i2 <= 3);
    macro_rules! g3 {
        ($i:expr) => {
            match $i {
                0 => c.get(0),
                1 => c.get(1),
                2 => c.get(2),
                _ => c.get(3),
            }
        };
    }
    let (a, b) = match i1 {
        0 => {
            let a = c.get(0);
            (a, g3!(i2))
        }
        1 => {
            let a = c.get(1);
            (a, g3!(i2))
        }
        2 => {
            let a = c.get(2);
            (a, g3!(i2))
        }
        _ => {
            let a = c.get(3);
            (a, g3!(i2))
        }
    };
    assert!(end_ok(&pos, i1, a));
    assert!(end_ok(&pos, i2, b));
    kani::cover!(i1 == 0 && i2 == 2 && pos[2] == pos[1] && pos[0] > 0 && pos[0] < pos[1]);
    kani::cover!(i1 == 2 && i2 == 0);
    core::mem::forget(c);
}

//! C17 — YAML position tables return recorded positions under any access order.

use crate::models;
use crate::stubs::{any_bool, no, yes};
use succinctly::verif_hooks::{EndPositions, OpenPositions};

/// Start positions: every lookup history (i1; i2; i3) over arbitrary positions
/// (monotone -> compact encoding, non-monotone -> dense fallback, duplicates,
/// positions up to and including text_len).
macro_rules! open3 {
    ($name:ident, $n:expr, $tl:expr, $maxpos:expr) => {
        #[kani::proof]
        #[kani::unwind(8)]
        #[kani::stub(succinctly::util::simd::x86::has_fast_bmi2, no)]
        #[kani::stub(std_detect::detect::__is_feature_detected::avx2, yes)]
        #[kani::stub(core::arch::x86_64::_mm256_shuffle_epi8, models::mm256_shuffle_epi8)]
        #[kani::stub(core::arch::x86_64::_mm256_sad_epu8, models::mm256_sad_epu8)]
        fn $name() {
            let pos: [u32; $n] = kani::any();
            let mut j = 0;
            while j < $n {
                kani::assume(pos[j] <= $maxpos);
                j += 1;
            }
            let op = OpenPositions::build(&pos, $tl);
            assert!(op.len() == $n);
            let i1: usize = kani::any();
            let i2: usize = kani::any();
            let i3: usize = kani::any();
            kani::assume(i1 <= $n + 1 && i2 <= $n + 1 && i3 <= $n + 1);
            let a1 = op.get(i1);
            let a2 = op.get(i2);
            let a3 = op.get(i3);
            assert!(a1 == if i1 < $n { Some(pos[i1]) } else { None });
            assert!(a2 == if i2 < $n { Some(pos[i2]) } else { None });
            assert!(a3 == if i3 < $n { Some(pos[i3]) } else { None });
            kani::cover!(op.is_compact() && i2 < i1 && i3 == i2 + 1 && i3 < $n);
            kani::cover!(!op.is_compact());
            kani::cover!(op.is_compact() && i1 == 0 && i2 == 2 && i3 == 2);
            core::mem::forget(op);
        }
    };
}
open3!(c17_open3_n4_tl100, 4, 100, 99);
open3!(c17_open3_n5_tl128_max127, 5, 128, 127);
open3!(c17_open3_n4_tl64_max63, 4, 64, 63);
// positions equal to the text length
open3!(c17_open3_n4_tl100_eof, 4, 100, 100);
open3!(c17_open3_n4_tl64_eof, 4, 64, 64);

/// End positions: node with a recorded end (non-zero) -> exactly that end; node
/// without one -> None or the end recorded for the nearest earlier node.
macro_rules! end3 {
    ($name:ident, $n:expr, $tl:expr, $maxpos:expr) => {
        #[kani::proof]
        #[kani::unwind(8)]
        #[kani::stub(succinctly::util::simd::x86::has_fast_bmi2, no)]
        #[kani::stub(std_detect::detect::__is_feature_detected::avx2, yes)]
        #[kani::stub(core::arch::x86_64::_mm256_shuffle_epi8, models::mm256_shuffle_epi8)]
        #[kani::stub(core::arch::x86_64::_mm256_sad_epu8, models::mm256_sad_epu8)]
        fn $name() {
            let pos: [u32; $n] = kani::any();
            let mut j = 0;
            while j < $n {
                kani::assume(pos[j] <= $maxpos);
                j += 1;
            }
            let ep = EndPositions::build(&pos, $tl);
            let i1: usize = kani::any();
            let i2: usize = kani::any();
            let i3: usize = kani::any();
            kani::assume(i1 <= $n + 1 && i2 <= $n + 1 && i3 <= $n + 1);
            let a1 = ep.get(i1);
            let a2 = ep.get(i2);
            let a3 = ep.get(i3);
            assert!(end_ok(&pos, i1, a1));
            assert!(end_ok(&pos, i2, a2));
            assert!(end_ok(&pos, i3, a3));
            kani::cover!(i2 < i1 && i3 == i2 + 1 && i3 < $n && pos[i3] > 0 && pos[0] > 0 && pos[0] < pos[1]);
            kani::cover!(i1 < $n && pos[i1] == 0 && a1.is_some());
            core::mem::forget(ep);
        }
    };
}
fn end_ok<const N: usize>(pos: &[u32; N], i: usize, got: Option<usize>) -> bool {
    if i >= N {
        return got.is_none();
    }
    if pos[i] > 0 {
        return got == Some(pos[i] as usize);
    }
    // no end recorded: None, or the nearest earlier recorded end
    let mut prev = 0u32;
    let mut j = 0;
    while j < i {
        if pos[j] > 0 {
            prev = pos[j];
        }
        j += 1;
    }
    match got {
        None => true,
        Some(e) => prev > 0 && e == prev as usize,
    }
}
end3!(c17_end3_n4_tl100, 4, 100, 100);
end3!(c17_end3_n5_tl128, 5, 128, 128);
end3!(c17_end3_n4_tl64, 4, 64, 64);
end3!(c17_end3_n4_tl63, 4, 63, 63);

#[kani::proof]
#[kani::unwind(8)]
#[kani::stub(succinctly::util::simd::x86::has_fast_bmi2, no)]
#[kani::stub(std_detect::detect::__is_feature_detected::avx2, yes)]
#[kani::stub(core::arch::x86_64::_mm256_shuffle_epi8, models::mm256_shuffle_epi8)]
#[kani::stub(core::arch::x86_64::_mm256_sad_epu8, models::mm256_sad_epu8)]
fn c17_witness_must_fail() {
    let pos: [u32; 3] = kani::any();
    kani::assume(pos[0] <= 50 && pos[1] <= 50 && pos[2] <= 50);
    let op = OpenPositions::build(&pos, 64);
    // wrong on purpose: claims positions are strictly increasing
    assert!(op.get(1).unwrap() > op.get(0).unwrap());
    core::mem::forget(op);
}

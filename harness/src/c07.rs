//! C07 — JSON interest-bit rank/select (and select with a hint) are exact.

use crate::models;
use crate::spec;
use crate::stubs::{any_bool, no, yes};
use succinctly::json::JsonIndex;

/// rank and plain select: every position, every k (including k >= ones and k >= 2^32).
macro_rules! ib_rank_select {
    ($name:ident, $w:expr, $bmi2:path) => {
        #[kani::proof]
        #[kani::unwind(7)]
        #[kani::stub(succinctly::util::simd::x86::has_fast_bmi2, $bmi2)]
        #[kani::stub(core::arch::x86_64::_pdep_u64, models::pdep_u64)]
        fn $name() {
            let ib: [u64; $w] = kani::any();
            let bp: [u64; 1] = [0];
            let idx = JsonIndex::from_parts(&ib[..], 64 * $w, &bp[..], 0);
            let p: usize = kani::any();
            let lim = if p < 64 * $w { p } else { 64 * $w };
            assert!(idx.ib_rank1(p) == spec::rank1(&ib, lim));
            let k: usize = kani::any();
            let want = spec::select1(&ib, 64 * $w, k);
            let got = idx.ib_select1(k);
            assert!(got == want);
            kani::cover!(matches!(want, Some(x) if x >= 64 * ($w - 1)));
            kani::cover!(want.is_none() && k < 64 * $w);
            kani::cover!(k > u32::MAX as usize);
            core::mem::forget(idx);
        }
    };
}
ib_rank_select!(c07_ib_4w, 4, no);
ib_rank_select!(c07_ib_4w_pdep, 4, yes);
ib_rank_select!(c07_ib_1w, 1, no);
ib_rank_select!(c07_ib_9w, 9, no);
ib_rank_select!(c07_ib_12w, 12, no);

/// select with a hint == plain select, for every hint (the in-word select is
/// replaced by its contract here; the harness above keeps the real one).
macro_rules! ib_hint {
    ($name:ident, $w:expr) => {
        #[kani::proof]
        #[kani::unwind(7)]
        #[kani::stub(succinctly::util::broadword::select_in_word, crate::stubs::select_in_word_contract)]
        fn $name() {
            let ib: [u64; $w] = kani::any();
            let bp: [u64; 1] = [0];
            let idx = JsonIndex::from_parts(&ib[..], 64 * $w, &bp[..], 0);
            let k: usize = kani::any();
            let hint: usize = kani::any();
            kani::assume(hint <= $w + 10);
            let plain = idx.ib_select1(k);
            let hinted = idx.ib_select1_from(k, hint);
            assert!(hinted == plain);
            kani::cover!(matches!(plain, Some(x) if x >= 64 * ($w - 1)) && hint == 0);
            kani::cover!(matches!(plain, Some(x) if x < 64) && hint >= $w - 1);
            kani::cover!(plain.is_none() && hint == 1);
            core::mem::forget(idx);
        }
    };
}
ib_hint!(c07_hint_2w, 2);
ib_hint!(c07_hint_4w, 4);
ib_hint!(c07_hint_9w, 9);
ib_hint!(c07_hint_12w, 12);

/// Empty index: no words at all.
#[kani::proof]
#[kani::unwind(7)]
fn c07_ib_empty() {
    let ib: [u64; 0] = [];
    let bp: [u64; 0] = [];
    let idx = JsonIndex::from_parts(&ib[..], 0, &bp[..], 0);
    let k: usize = kani::any();
    let h: usize = kani::any();
    assert!(idx.ib_select1(k).is_none());
    assert!(idx.ib_select1_from(k, h).is_none());
    assert!(idx.ib_rank1(k) == 0);
    core::mem::forget(idx);
}

/// Indexes rebuilt from serialized parts (C31): a JsonIndex over words that went
/// through words_to_bytes / bytes_to_words_vec answers like the original.
#[kani::proof]
#[kani::unwind(7)]
#[kani::stub(succinctly::util::simd::x86::has_fast_bmi2, no)]
fn c07_from_serialized_parts_2w() {
    let ib: [u64; 2] = kani::any();
    let bp: [u64; 1] = [0];
    let a = JsonIndex::from_parts(&ib[..], 128, &bp[..], 0);
    let bytes = succinctly::binary::words_to_bytes(&ib);
    let back = succinctly::binary::bytes_to_words_vec(bytes);
    let b = JsonIndex::from_parts(back, 128, vec![0u64], 0);
    let k: usize = kani::any();
    let p: usize = kani::any();
    assert!(a.ib_select1(k) == b.ib_select1(k));
    assert!(a.ib_rank1(p) == b.ib_rank1(p));
    kani::cover!(a.ib_select1(k).is_some());
    core::mem::forget(a);
    core::mem::forget(b);
}

#[kani::proof]
#[kani::unwind(7)]
#[kani::stub(succinctly::util::simd::x86::has_fast_bmi2, no)]
fn c07_witness_must_fail() {
    let ib: [u64; 2] = kani::any();
    let bp: [u64; 1] = [0];
    let idx = JsonIndex::from_parts(&ib[..], 128, &bp[..], 0);
    // wrong on purpose: claims the second one is always in the first word
    let r = idx.ib_select1(1);
    assert!(matches!(r, Some(x) if x < 64) || r.is_none());
    core::mem::forget(idx);
}

//! C21 — DSV rows and fields follow quote-aware splitting.

use crate::stubs::{any_bool, no, yes};
use succinctly::dsv::{self, DsvConfig, DsvRows};

fn cfg() -> DsvConfig {
    let d: u8 = kani::any();
    let q: u8 = kani::any();
    let n: u8 = kani::any();
    kani::assume(d != q && d != n && q != n);
    DsvConfig { delimiter: d, quote_char: q, newline: n }
}

/// Definition. Walk the text once with a quote flag (a quote byte toggles it
/// before it is classified). Rows end at record separators outside quotes; a
/// final separator does not start an extra row; the empty text has no rows.
/// Fields of a row end at delimiters outside quotes, so a row always has at
/// least one field and a trailing delimiter is followed by an empty field.
/// Returns the byte range of field `f` of row `r`, or None if there is no such
/// row/field, plus the number of rows and the number of fields of row `r`.
struct Split {
    field: Option<(usize, usize)>,
    rows: usize,
    fields_in_row: usize,
}
fn split(t: &[u8], c: &DsvConfig, r: usize, f: usize) -> Split {
    let n = t.len();
    let mut out = Split { field: None, rows: 0, fields_in_row: 0 };
    if n == 0 {
        return out;
    }
    let mut inq = false;
    let mut row = 0usize;
    let mut fld = 0usize;
    let mut start = 0usize;
    let mut i = 0;
    while i < n {
        let b = t[i];
        if b == c.quote_char {
            inq = !inq;
        }
        let is_nl = !inq && b == c.newline;
        let is_d = !inq && b == c.delimiter;
        if is_nl || is_d {
            if row == r && fld == f {
                out.field = Some((start, i));
            }
            start = i + 1;
            if is_nl {
                if row == r {
                    out.fields_in_row = fld + 1;
                }
                row += 1;
                fld = 0;
            } else {
                fld += 1;
            }
        }
        i += 1;
    }
    // the text does not end with an (unquoted) record separator: one more row
    let last_is_nl = {
        // recompute the state of the last byte
        let mut q = false;
        let mut j = 0;
        let mut nl = false;
        while j < n {
            if t[j] == c.quote_char {
                q = !q;
            }
            nl = !q && t[j] == c.newline;
            j += 1;
        }
        nl
    };
    if !last_is_nl {
        if row == r && fld == f {
            out.field = Some((start, n));
        }
        if row == r {
            out.fields_in_row = fld + 1;
        }
        row += 1;
    }
    out.rows = row;
    out
}

fn bytes_eq(a: &[u8], t: &[u8], range: (usize, usize)) -> bool {
    if a.len() != range.1 - range.0 {
        return false;
    }
    let mut i = 0;
    while i < a.len() {
        if a[i] != t[range.0 + i] {
            return false;
        }
        i += 1;
    }
    true
}

/// The recorded finding's role: the text's last byte is a delimiter outside
/// quotes, so the last row ends with an empty field and there is no final
/// record separator.
fn ends_with_open_delimiter(t: &[u8], c: &DsvConfig) -> bool {
    let mut q = false;
    let mut last_d = false;
    let mut j = 0;
    while j < t.len() {
        if t[j] == c.quote_char {
            q = !q;
        }
        last_d = !q && t[j] == c.delimiter;
        j += 1;
    }
    last_d
}

macro_rules! rows_fields {
    ($name:ident, $n:expr, $finding:expr) => {
        #[kani::proof]
        #[kani::stub(alloc::vec::Vec::push, crate::stubs::push_no_grow)]
        #[kani::unwind(9)]
        #[kani::stub(succinctly::util::simd::x86::has_fast_bmi2, no)]
        fn $name() {
            let t: [u8; $n] = kani::any();
            let c = cfg();
            kani::assume(ends_with_open_delimiter(&t, &c) == $finding);
            let idx = dsv::build_index_scalar(&t, &c);
            let r: usize = kani::any();
            let f: usize = kani::any();
            kani::assume(r <= $n + 1 && f <= $n + 1);
            let want = split(&t, &c, r, f);

            // iteration: r-th row, f-th field
            let mut rows = DsvRows::new(&t, &idx);
            let mut k = 0;
            let mut row = rows.next();
            while k < r && row.is_some() {
                row = rows.next();
                k += 1;
            }
            assert!(row.is_some() == (r < want.rows));
            if let Some(row) = row {
                let mut fields = row.fields();
                let mut j = 0;
                let mut fld = fields.next();
                while j < f && fld.is_some() {
                    fld = fields.next();
                    j += 1;
                }
                match (fld, want.field) {
                    (Some(got), Some(range)) => assert!(bytes_eq(got, &t, range)),
                    (None, None) => {}
                    _ => assert!(false),
                }
                // random access to the column agrees with iteration
                let via_get = row.get(f);
                match (via_get, want.field) {
                    (Some(got), Some(range)) => assert!(bytes_eq(got, &t, range)),
                    (None, None) => {}
                    _ => assert!(false),
                }
            }
            // random access to the row agrees with iteration
            let dref = dsv::DsvRef::new(&t, &idx);
            let ra = dref.row(r);
            assert!(ra.is_some() == (r < want.rows));
            if let Some(row) = ra {
                match (row.get(f), want.field) {
                    (Some(got), Some(range)) => assert!(bytes_eq(got, &t, range)),
                    (None, None) => {}
                    _ => assert!(false),
                }
            }
            kani::cover!($n < 4 || (want.rows >= 2 && r == 1 && f == 1 && want.field.is_some()));
            kani::cover!($n < 2 || $finding || matches!(want.field, Some((a, b)) if a == b && f > 0));
            core::mem::forget(idx);
        }
    };
}
rows_fields!(c21_rows_fields_len1, 1, false);
rows_fields!(c21_rows_fields_len2, 2, false);
rows_fields!(c21_rows_fields_len3, 3, false);
rows_fields!(c21_rows_fields_len4, 4, false);
rows_fields!(c21_rows_fields_len5, 5, false);
rows_fields!(c21_rows_fields_len6, 6, false);
// the role of the recorded finding: last byte is an unquoted delimiter
rows_fields!(c21_trailing_delimiter_len2, 2, true);
rows_fields!(c21_trailing_delimiter_len4, 4, true);

/// Appending a record separator to a non-empty text with balanced quotes that
/// does not already end with one changes neither the rows nor their fields.
macro_rules! append_nl {
    ($name:ident, $n:expr, $m:expr, $finding:expr) => {
        #[kani::proof]
        #[kani::stub(alloc::vec::Vec::push, crate::stubs::push_no_grow)]
        #[kani::unwind(9)]
        #[kani::stub(succinctly::util::simd::x86::has_fast_bmi2, no)]
        fn $name() {
            let t: [u8; $n] = kani::any();
            let c = cfg();
            kani::assume(ends_with_open_delimiter(&t, &c) == $finding);
            // balanced quotes, does not end with a record separator
            let mut quotes = 0usize;
            let mut i = 0;
            while i < $n {
                if t[i] == c.quote_char {
                    quotes += 1;
                }
                i += 1;
            }
            kani::assume(quotes % 2 == 0);
            kani::assume(t[$n - 1] != c.newline);
            let mut t2 = [0u8; $m];
            let mut i = 0;
            while i < $n {
                t2[i] = t[i];
                i += 1;
            }
            t2[$n] = c.newline;
            let i1 = dsv::build_index_scalar(&t, &c);
            let i2 = dsv::build_index_scalar(&t2, &c);
            let r: usize = kani::any();
            let f: usize = kani::any();
            kani::assume(r <= $n + 1 && f <= $n + 1);
            let row1 = dsv::DsvRef::new(&t, &i1).row(r);
            let row2 = dsv::DsvRef::new(&t2, &i2).row(r);
            assert!(row1.is_some() == row2.is_some());
            if let (Some(a), Some(b)) = (row1, row2) {
                let mut fa = a.fields();
                let mut fb = b.fields();
                let mut j = 0;
                let mut x = fa.next();
                let mut y = fb.next();
                while j < f && (x.is_some() || y.is_some()) {
                    x = fa.next();
                    y = fb.next();
                    j += 1;
                }
                match (x, y) {
                    (Some(p), Some(q)) => {
                        assert!(p.len() == q.len());
                        let mut k = 0;
                        while k < p.len() {
                            assert!(p[k] == q[k]);
                            k += 1;
                        }
                    }
                    (None, None) => {}
                    _ => assert!(false),
                }
            }
            kani::cover!(row1.is_some() && r == 1);
            core::mem::forget(i1);
            core::mem::forget(i2);
        }
    };
}
append_nl!(c21_append_separator_len3, 3, 4, false);
append_nl!(c21_append_separator_len4, 4, 5, false);
append_nl!(c21_append_separator_len5, 5, 6, false);
append_nl!(c21_append_separator_trailing_delimiter_len3, 3, 4, true);

#[kani::proof]
#[kani::stub(alloc::vec::Vec::push, crate::stubs::push_no_grow)]
#[kani::unwind(9)]
#[kani::stub(succinctly::util::simd::x86::has_fast_bmi2, no)]
fn c21_witness_must_fail() {
    let t: [u8; 3] = kani::any();
    let c = cfg();
    let idx = dsv::build_index_scalar(&t, &c);
    let mut rows = DsvRows::new(&t, &idx);
    let first = rows.next().unwrap();
    // wrong on purpose: claims the first field never contains a quote byte
    let fld = first.fields().next().unwrap();
    assert!(fld.is_empty() || fld[0] != c.quote_char);
    core::mem::forget(idx);
}

//! C03 — Elias-Fano sequences answer exactly under any access history.
//!
//! Bound: n concrete, last element concrete (fixes low_width and all array
//! sizes); the other elements are arbitrary non-decreasing u32 <= last.
//! Dispatch: AVX2 block popcount modelled (C02 decides the kernel), in-word
//! select on the CTZ path or the PDEP model, chosen per harness.

use crate::models;
use crate::spec;
use crate::stubs::{any_bool, no, select_in_word_contract, yes};
use succinctly::bits::EliasFano;

/// n arbitrary non-decreasing values ending in the concrete `last`.
fn seq<const N: usize>(last: u32) -> [u32; N] {
    let mut v: [u32; N] = kani::any();
    v[N - 1] = last;
    let mut i = 0;
    while i + 1 < N {
        kani::assume(v[i] <= v[i + 1]);
        i += 1;
    }
    v
}

macro_rules! ef_get {
    ($name:ident, $n:expr, $last:expr, $bmi2:path) => {
        #[kani::proof]
        #[kani::stub(alloc::vec::Vec::push, crate::stubs::push_no_grow)]
        #[kani::unwind(9)]
        #[kani::stub(succinctly::util::simd::x86::has_fast_bmi2, $bmi2)]
        #[kani::stub(core::arch::x86_64::_pdep_u64, models::pdep_u64)]
        #[kani::stub(std_detect::detect::__is_feature_detected::avx2, yes)]
        #[kani::stub(core::arch::x86_64::_mm256_shuffle_epi8, models::mm256_shuffle_epi8)]
        #[kani::stub(core::arch::x86_64::_mm256_sad_epu8, models::mm256_sad_epu8)]
        fn $name() {
            let v: [u32; $n] = seq::<$n>($last);
            let ef = EliasFano::build(&v);
            assert!(ef.len() == $n);
            assert!(!ef.is_empty());
            assert!(ef.universe() == $last as u64 + 1);
            let i: usize = kani::any();
            let g = ef.get(i);
            if i < $n {
                assert!(g == Some(v[i]));
            } else {
                assert!(g.is_none());
            }
            kani::cover!($n == 1 || (i < $n - 1 && v[i] == v[i + 1]));
            kani::cover!(i == $n - 1);
            core::mem::forget(ef);
        }
    };
}
ef_get!(c03_get_n1_last0, 1, 0, no);
ef_get!(c03_get_n1_lastmax, 1, u32::MAX, no);
ef_get!(c03_get_n4_last3, 4, 3, no);
ef_get!(c03_get_n4_last1000, 4, 1000, no);
ef_get!(c03_get_n4_last1000_pdep, 4, 1000, yes);
ef_get!(c03_get_n4_lastmax, 4, u32::MAX, no);
ef_get!(c03_get_n6_last1m, 6, 1 << 20, no);
ef_get!(c03_get_n8_last1000, 8, 1000, no);
ef_get!(c03_get_n8_last7, 8, 7, no);

macro_rules! ef_pred {
    ($name:ident, $n:expr, $last:expr) => {
        #[kani::proof]
        #[kani::stub(alloc::vec::Vec::push, crate::stubs::push_no_grow)]
        #[kani::unwind(9)]
        #[kani::stub(succinctly::util::broadword::select_in_word, select_in_word_contract)]
        #[kani::stub(std_detect::detect::__is_feature_detected::avx2, yes)]
        #[kani::stub(core::arch::x86_64::_mm256_shuffle_epi8, models::mm256_shuffle_epi8)]
        #[kani::stub(core::arch::x86_64::_mm256_sad_epu8, models::mm256_sad_epu8)]
        fn $name() {
            let v: [u32; $n] = seq::<$n>($last);
            let ef = EliasFano::build(&v);
            let q: u32 = kani::any();
            let got = ef.predecessor(q);
            match got {
                Some((j, x)) => {
                    // last index holding the largest element <= q
                    assert!(j < $n && v[j] == x && x <= q);
                    assert!(j == $n - 1 || v[j + 1] > q);
                }
                None => assert!(v[0] > q),
            }
            kani::cover!(matches!(got, Some((j, _)) if j > 0 && j + 1 < $n && v[j - 1] == v[j]));
            kani::cover!(got.is_none());
            core::mem::forget(ef);
        }
    };
}
ef_pred!(c03_pred_n4_last1000, 4, 1000);
ef_pred!(c03_pred_n4_lastmax, 4, u32::MAX);
ef_pred!(c03_pred_n6_last5, 6, 5);
ef_pred!(c03_pred_n8_last1000, 8, 1000);

macro_rules! ef_iter {
    ($name:ident, $n:expr, $last:expr) => {
        #[kani::proof]
        #[kani::stub(alloc::vec::Vec::push, crate::stubs::push_no_grow)]
        #[kani::unwind(9)]
        #[kani::stub(succinctly::util::simd::x86::has_fast_bmi2, no)]
        #[kani::stub(std_detect::detect::__is_feature_detected::avx2, yes)]
        #[kani::stub(core::arch::x86_64::_mm256_shuffle_epi8, models::mm256_shuffle_epi8)]
        #[kani::stub(core::arch::x86_64::_mm256_sad_epu8, models::mm256_sad_epu8)]
        fn $name() {
            let v: [u32; $n] = seq::<$n>($last);
            let ef = EliasFano::build(&v);
            let mut it = (&ef).into_iter();
            let mut i = 0;
            while i < $n {
                assert!(it.next() == Some(v[i]));
                i += 1;
            }
            assert!(it.next().is_none());
            assert!(it.next().is_none());
            core::mem::forget(ef);
        }
    };
}
ef_iter!(c03_iter_n4_last1000, 4, 1000);
ef_iter!(c03_iter_n6_last1m, 6, 1 << 20);
ef_iter!(c03_iter_n5_last4, 5, 4);

// ---- cursor: one-step induction over histories -------------------------------------

/// Plain-sequence model of one cursor operation from index `idx` (n = exhausted).
/// op: 0 current, 1 advance_one, 2 advance_by(arg), 3 seek(arg).
fn model_step<const N: usize>(v: &[u32; N], idx: usize, op: u8, arg: usize) -> (Option<u32>, usize) {
    let cur = |i: usize| if i < N { Some(v[i]) } else { None };
    match op {
        0 => (cur(idx), idx),
        1 => {
            if idx + 1 >= N {
                (None, N)
            } else {
                (cur(idx + 1), idx + 1)
            }
        }
        2 => {
            if arg == 0 {
                (cur(idx), idx)
            } else if idx + arg >= N {
                (None, N)
            } else {
                (cur(idx + arg), idx + arg)
            }
        }
        _ => {
            if arg >= N {
                (None, N)
            } else {
                (cur(arg), arg)
            }
        }
    }
}

macro_rules! apply_op {
    ($c:ident, $op:expr, $arg:expr) => {
        match $op {
            0 => $c.current(),
            1 => $c.advance_one(),
            2 => $c.advance_by($arg),
            _ => $c.seek($arg),
        }
    };
}

/// From the canonical state of an arbitrary index j (the state the real
/// `cursor_from(j)` builds), one operation (concrete kind, arbitrary argument)
/// returns the plain-sequence answer and leaves the cursor in the canonical
/// state of its new index (or exhausted). Together with `cursor() ==
/// cursor_from(0)` and the exhausted-cursor harness this covers every finite
/// interleaving.
macro_rules! ef_cursor_step {
    ($name:ident, $n:expr, $last:expr, $op:expr, $maxk:expr) => {
        #[kani::proof]
        #[kani::stub(alloc::vec::Vec::push, crate::stubs::push_no_grow)]
        #[kani::unwind(9)]
        #[kani::stub(succinctly::util::broadword::select_in_word, select_in_word_contract)]
        #[kani::stub(std_detect::detect::__is_feature_detected::avx2, yes)]
        #[kani::stub(core::arch::x86_64::_mm256_shuffle_epi8, models::mm256_shuffle_epi8)]
        #[kani::stub(core::arch::x86_64::_mm256_sad_epu8, models::mm256_sad_epu8)]
        fn $name() {
            let v: [u32; $n] = seq::<$n>($last);
            let ef = EliasFano::build(&v);
            let j: usize = kani::any();
            kani::assume(j <= $n + 1);
            let mut c = ef.cursor_from(j);
            let idx0 = if j >= $n { $n } else { j };
            assert!(c.index() == idx0);
            assert!(c.is_exhausted() == (idx0 >= $n));
            let arg: usize = kani::any();
            kani::assume(arg <= $maxk);
            let got = apply_op!(c, $op, arg);
            let (want, idx1) = model_step::<$n>(&v, idx0, $op, arg);
            assert!(got == want);
            assert!(c.index() == idx1);
            assert!(c.is_exhausted() == (idx1 >= $n));
            if idx1 < $n {
                assert!(c.current() == Some(v[idx1]));
                let canon = ef.cursor_from(idx1);
                assert!(c.verif_state() == canon.verif_state());
            }
            kani::cover!($op == 0 || (idx1 < $n && idx1 != idx0));
            kani::cover!($op == 0 || (idx1 == $n && idx0 < $n));
            core::mem::forget(ef);
        }
    };
}
ef_cursor_step!(c03_cursor_current_n4_last1000, 4, 1000, 0, 0);
ef_cursor_step!(c03_cursor_adv1_n4_last1000, 4, 1000, 1, 0);
ef_cursor_step!(c03_cursor_advby_n4_last1000, 4, 1000, 2, 6);
ef_cursor_step!(c03_cursor_seek_n4_last1000, 4, 1000, 3, 6);
ef_cursor_step!(c03_cursor_adv1_n4_lastmax, 4, u32::MAX, 1, 0);
ef_cursor_step!(c03_cursor_advby_n4_lastmax, 4, u32::MAX, 2, 6);
ef_cursor_step!(c03_cursor_adv1_n6_last5, 6, 5, 1, 0);
ef_cursor_step!(c03_cursor_advby_n6_last5, 6, 5, 2, 8);
ef_cursor_step!(c03_cursor_seek_n6_last5, 6, 5, 3, 8);
ef_cursor_step!(c03_cursor_adv1_n8_last1000, 8, 1000, 1, 0);
ef_cursor_step!(c03_cursor_advby_n8_last1000, 8, 1000, 2, 10);
ef_cursor_step!(c03_cursor_adv1_n6_last300, 6, 300, 1, 0);
ef_cursor_step!(c03_cursor_advby_n6_last300, 6, 300, 2, 8);

/// An exhausted cursor keeps stale position fields; whatever exhausted it, the
/// next operation must still behave like the plain sequence (only `seek` can
/// revive it, and then the state is canonical again).
macro_rules! ef_cursor_exhausted {
    ($name:ident, $n:expr, $last:expr, $maxk:expr) => {
        #[kani::proof]
        #[kani::stub(alloc::vec::Vec::push, crate::stubs::push_no_grow)]
        #[kani::unwind(9)]
        #[kani::stub(succinctly::util::broadword::select_in_word, select_in_word_contract)]
        #[kani::stub(std_detect::detect::__is_feature_detected::avx2, yes)]
        #[kani::stub(core::arch::x86_64::_mm256_shuffle_epi8, models::mm256_shuffle_epi8)]
        #[kani::stub(core::arch::x86_64::_mm256_sad_epu8, models::mm256_sad_epu8)]
        fn $name() {
            let v: [u32; $n] = seq::<$n>($last);
            let ef = EliasFano::build(&v);
            let j: usize = kani::any();
            kani::assume(j < $n);
            let mut c = ef.cursor_from(j);
            // exhaust it by one of the three exhausting operations
            let how: u8 = kani::any();
            kani::assume(how <= 2);
            let arg: usize = kani::any();
            kani::assume(arg <= $maxk);
            let r = match how {
                0 => {
                    kani::assume(j == $n - 1);
                    c.advance_one()
                }
                1 => {
                    kani::assume(arg >= 2 && j + arg >= $n);
                    c.advance_by(arg)
                }
                _ => {
                    kani::assume(arg >= $n);
                    c.seek(arg)
                }
            };
            assert!(r.is_none() && c.is_exhausted() && c.index() == $n);
            let op2: u8 = kani::any();
            kani::assume(op2 <= 3);
            let arg2: usize = kani::any();
            kani::assume(arg2 <= $maxk);
            let got2 = apply_op!(c, op2, arg2);
            let (want2, idx2) = model_step::<$n>(&v, $n, op2, arg2);
            assert!(got2 == want2);
            assert!(c.index() == idx2);
            if idx2 < $n {
                assert!(c.verif_state() == ef.cursor_from(idx2).verif_state());
            }
            kani::cover!(op2 == 3 && idx2 < $n);
            kani::cover!(how == 1 && op2 == 2);
            core::mem::forget(ef);
        }
    };
}
ef_cursor_exhausted!(c03_cursor_exhausted_n4_last1000, 4, 1000, 6);

/// Long concrete skeleton (300 elements: two select samples, 13 high-bit words)
/// with symbolic start index and symbolic operation argument: reaches the
/// sample-based paths of `select1`/`seek`, the `advance_by(k > 64)` seek branch
/// and word-skipping scans, which sequences of <= 8 elements cannot.
fn skeleton300() -> [u32; 300] {
    let mut v = [0u32; 300];
    let mut i = 0;
    while i < 300 {
        // irregular gaps: runs of duplicates, small steps and a few large jumps
        v[i] = (i as u32) * 3 + 100 + if i % 7 == 0 { 40 } else { 0 } + if i > 200 { 900 } else { 0 };
        if i > 0 && v[i] < v[i - 1] {
            v[i] = v[i - 1];
        }
        i += 1;
    }
    v
}
macro_rules! ef_cursor_skeleton {
    ($name:ident, $op:expr, $maxk:expr) => {
        #[kani::proof]
        #[kani::stub(alloc::vec::Vec::push, crate::stubs::push_no_grow)]
        #[kani::unwind(9)]
        #[kani::stub(succinctly::util::broadword::select_in_word, select_in_word_contract)]
        #[kani::stub(std_detect::detect::__is_feature_detected::avx2, yes)]
        #[kani::stub(core::arch::x86_64::_mm256_shuffle_epi8, models::mm256_shuffle_epi8)]
        #[kani::stub(core::arch::x86_64::_mm256_sad_epu8, models::mm256_sad_epu8)]
        fn $name() {
            let v = skeleton300();
            let ef = EliasFano::build(&v);
            let j: usize = kani::any();
            kani::assume(j <= 301);
            let mut c = ef.cursor_from(j);
            let idx0 = if j >= 300 { 300 } else { j };
            assert!(c.index() == idx0);
            let arg: usize = kani::any();
            kani::assume(arg <= $maxk);
            let got = apply_op!(c, $op, arg);
            let (want, idx1) = model_step::<300>(&v, idx0, $op, arg);
            assert!(got == want);
            assert!(c.index() == idx1);
            if idx1 < 300 {
                assert!(c.current() == Some(v[idx1]));
                assert!(c.verif_state() == ef.cursor_from(idx1).verif_state());
            }
            kani::cover!(idx1 == 256 && idx0 != 256);
            kani::cover!($op != 2 || (arg > 64 && idx1 < 300));
            core::mem::forget(ef);
        }
    };
}
/// Same skeleton, narrow window around the second select sample (element 256): from the
/// fresh cursor, `seek(t)` for every t in 250..=262, then one `advance_one`.
#[kani::proof]
#[kani::stub(alloc::vec::Vec::push, crate::stubs::push_no_grow)]
#[kani::unwind(9)]
#[kani::stub(succinctly::util::broadword::select_in_word, select_in_word_contract)]
#[kani::stub(std_detect::detect::__is_feature_detected::avx2, yes)]
#[kani::stub(core::arch::x86_64::_mm256_shuffle_epi8, models::mm256_shuffle_epi8)]
#[kani::stub(core::arch::x86_64::_mm256_sad_epu8, models::mm256_sad_epu8)]
fn c03_cursor_skeleton300_sample_window() {
    let v = skeleton300();
    let ef = EliasFano::build(&v);
    let mut c = ef.cursor();
    let t: usize = kani::any();
    kani::assume(t >= 250 && t <= 262);
    let got = c.seek(t);
    assert!(got == Some(v[t]));
    assert!(c.index() == t);
    assert!(c.verif_state() == ef.cursor_from(t).verif_state());
    let nxt = c.advance_one();
    assert!(nxt == Some(v[t + 1]));
    assert!(c.index() == t + 1);
    kani::cover!(t == 256);
    kani::cover!(t == 255);
    core::mem::forget(ef);
}
ef_cursor_skeleton!(c03_cursor_skeleton300_seek, 3, 301);
ef_cursor_skeleton!(c03_cursor_skeleton300_adv1, 1, 0);
ef_cursor_skeleton!(c03_cursor_skeleton300_advby, 2, 70);

/// get / predecessor on the same skeleton: every index, every query value.
#[kani::proof]
#[kani::stub(alloc::vec::Vec::push, crate::stubs::push_no_grow)]
#[kani::unwind(9)]
#[kani::stub(succinctly::util::broadword::select_in_word, select_in_word_contract)]
#[kani::stub(std_detect::detect::__is_feature_detected::avx2, yes)]
#[kani::stub(core::arch::x86_64::_mm256_shuffle_epi8, models::mm256_shuffle_epi8)]
#[kani::stub(core::arch::x86_64::_mm256_sad_epu8, models::mm256_sad_epu8)]
fn c03_get_pred_skeleton300() {
    let v = skeleton300();
    let ef = EliasFano::build(&v);
    assert!(ef.len() == 300 && ef.universe() == v[299] as u64 + 1);
    let i: usize = kani::any();
    let g = ef.get(i);
    assert!(g == if i < 300 { Some(v[i]) } else { None });
    let q: u32 = kani::any();
    match ef.predecessor(q) {
        Some((j, x)) => {
            assert!(j < 300 && v[j] == x && x <= q);
            assert!(j == 299 || v[j + 1] > q);
        }
        None => assert!(v[0] > q),
    }
    kani::cover!(i == 256);
    kani::cover!(i == 299);
    core::mem::forget(ef);
}

/// `cursor()` is `cursor_from(0)`; the empty sequence answers None everywhere.
#[kani::proof]
#[kani::stub(alloc::vec::Vec::push, crate::stubs::push_no_grow)]
#[kani::unwind(9)]
#[kani::stub(succinctly::util::simd::x86::has_fast_bmi2, no)]
#[kani::stub(std_detect::detect::__is_feature_detected::avx2, yes)]
#[kani::stub(core::arch::x86_64::_mm256_shuffle_epi8, models::mm256_shuffle_epi8)]
#[kani::stub(core::arch::x86_64::_mm256_sad_epu8, models::mm256_sad_epu8)]
fn c03_cursor0_and_empty() {
    let v: [u32; 4] = seq::<4>(100_000);
    let ef = EliasFano::build(&v);
    let c = ef.cursor();
    assert!(c.verif_state() == ef.cursor_from(0).verif_state());
    assert!(c.current() == Some(v[0]) && c.index() == 0);
    let e = EliasFano::build(&[]);
    assert!(e.len() == 0 && e.is_empty());
    let i: usize = kani::any();
    assert!(e.get(i).is_none());
    let q: u32 = kani::any();
    assert!(e.predecessor(q).is_none());
    let mut ce = e.cursor_from(i);
    assert!(ce.current().is_none() && ce.advance_one().is_none() && ce.seek(i).is_none());
    let mut c0 = e.cursor();
    assert!(c0.current().is_none() && c0.advance_by(i % 100).is_none());
    core::mem::forget(ef);
    core::mem::forget(e);
}

#[kani::proof]
#[kani::stub(alloc::vec::Vec::push, crate::stubs::push_no_grow)]
#[kani::unwind(9)]
#[kani::stub(succinctly::util::simd::x86::has_fast_bmi2, no)]
#[kani::stub(std_detect::detect::__is_feature_detected::avx2, yes)]
#[kani::stub(core::arch::x86_64::_mm256_shuffle_epi8, models::mm256_shuffle_epi8)]
#[kani::stub(core::arch::x86_64::_mm256_sad_epu8, models::mm256_sad_epu8)]
fn c03_witness_must_fail() {
    let v: [u32; 4] = seq::<4>(1000);
    let ef = EliasFano::build(&v);
    // wrong on purpose: claims element 1 is always strictly above element 0
    assert!(ef.get(1).unwrap() > ef.get(0).unwrap());
    core::mem::forget(ef);
}

//! C32 — the simple-cursor JSON index navigates valid documents exactly.

use crate::models;
use crate::spec_json::{recognise, Verdict};
use crate::stubs::{any_bool, no, yes};
use succinctly::json::SimpleJsonIndex;

/// Position of the k-th structural byte ({ } [ ] , :) outside strings, and the total count.
fn structurals(t: &[u8], k: usize) -> (Option<usize>, usize) {
    let mut in_str = false;
    let mut esc = false;
    let mut count = 0usize;
    let mut found = None;
    let mut i = 0;
    while i < t.len() {
        let c = t[i];
        if in_str {
            if esc {
                esc = false;
            } else if c == b'\\' {
                esc = true;
            } else if c == b'"' {
                in_str = false;
            }
        } else if c == b'"' {
            in_str = true;
        } else if c == b'{' || c == b'}' || c == b'[' || c == b']' || c == b',' || c == b':' {
            if count == k {
                found = Some(i);
            }
            count += 1;
        }
        i += 1;
    }
    (found, count)
}

/// Matching close bracket of the container opening at `pos` (depth scan outside strings).
fn matching_close(t: &[u8], pos: usize) -> Option<usize> {
    let mut in_str = false;
    let mut esc = false;
    let mut depth = 0usize;
    let mut i = pos;
    while i < t.len() {
        let c = t[i];
        if in_str {
            if esc {
                esc = false;
            } else if c == b'\\' {
                esc = true;
            } else if c == b'"' {
                in_str = false;
            }
        } else if c == b'"' {
            in_str = true;
        } else if c == b'{' || c == b'[' {
            depth += 1;
        } else if c == b'}' || c == b']' {
            depth -= 1;
            if depth == 0 {
                return Some(i);
            }
        }
        i += 1;
    }
    None
}

/// Is `pos` outside every string (i.e. not inside a string body)?
fn outside_strings(t: &[u8], pos: usize) -> bool {
    let mut in_str = false;
    let mut esc = false;
    let mut i = 0;
    while i < pos {
        let c = t[i];
        if in_str {
            if esc {
                esc = false;
            } else if c == b'\\' {
                esc = true;
            } else if c == b'"' {
                in_str = false;
            }
        } else if c == b'"' {
            in_str = true;
        }
        i += 1;
    }
    !in_str
}

/// Byte just after the value that starts at `pos` in a valid document.
fn value_end(t: &[u8], pos: usize) -> usize {
    let c = t[pos];
    if c == b'{' || c == b'[' {
        return matching_close(t, pos).unwrap() + 1;
    }
    if c == b'"' {
        let mut i = pos + 1;
        let mut esc = false;
        while i < t.len() {
            if esc {
                esc = false;
            } else if t[i] == b'\\' {
                esc = true;
            } else if t[i] == b'"' {
                return i + 1;
            }
            i += 1;
        }
        return t.len();
    }
    if c == b't' || c == b'n' {
        return pos + 4;
    }
    if c == b'f' {
        return pos + 5;
    }
    // number: maximal run of number characters
    let mut i = pos;
    while i < t.len() {
        let d = t[i];
        if (d >= b'0' && d <= b'9') || d == b'-' || d == b'+' || d == b'.' || d == b'e' || d == b'E' {
            i += 1;
        } else {
            break;
        }
    }
    i
}

/// `pos` starts a value (or an object key): outside strings, first byte of a
/// token, and the previous non-whitespace byte is a structural byte or nothing.
fn starts_value(t: &[u8], pos: usize) -> bool {
    let c = t[pos];
    let tok = c == b'{' || c == b'[' || c == b'"' || c == b't' || c == b'f' || c == b'n' || c == b'-' || (c >= b'0' && c <= b'9');
    if !tok || !outside_strings(t, pos) {
        return false;
    }
    let mut j = pos;
    while j > 0 {
        let p = t[j - 1];
        if p == b' ' || p == b'\t' || p == b'\n' || p == b'\r' {
            j -= 1;
        } else {
            return p == b'[' || p == b'{' || p == b',' || p == b':';
        }
    }
    true
}

/// Ordinal of the structural byte at `p` (None if `p` is not one).
fn ordinal_of(t: &[u8], p: usize) -> Option<usize> {
    let mut in_str = false;
    let mut esc = false;
    let mut count = 0usize;
    let mut i = 0;
    while i < t.len() {
        let c = t[i];
        if in_str {
            if esc {
                esc = false;
            } else if c == b'\\' {
                esc = true;
            } else if c == b'"' {
                in_str = false;
            }
        } else if c == b'"' {
            in_str = true;
        } else if c == b'{' || c == b'}' || c == b'[' || c == b']' || c == b',' || c == b':' {
            if i == p {
                return Some(count);
            }
            count += 1;
        }
        i += 1;
    }
    None
}

macro_rules! valid_doc {
    ($name:ident, $grp:ident, $n:expr) => {
        #[kani::proof]
        #[kani::stub(alloc::vec::Vec::push, crate::stubs::push_no_grow)]
        #[kani::unwind(10)]
        #[kani::stub(std_detect::detect::__is_feature_detected::avx2, no)]
        #[kani::stub(succinctly::util::simd::x86::has_fast_bmi2, no)]
        #[kani::stub(core::arch::x86_64::_mm_min_epu8, models::mm_min_epu8)]
        #[kani::stub(core::arch::x86_64::_mm_sub_epi8, models::mm_sub_epi8)]
        fn $name() {
            let t: [u8; $n] = kani::any();
            kani::assume(recognise::<4>(&t, 128) == Verdict::Accept);
            let idx = SimpleJsonIndex::build(&t);
            let p: usize = kani::any();
            kani::assume(p <= $n + 1);
            valid_doc!(@$grp, idx, t, p, $n);
            core::mem::forget(idx);
        }
    };
    // lists exactly the structural bytes, in order, and maps each back to its ordinal
    (@structural, $idx:ident, $t:ident, $p:ident, $n:expr) => {
        let (want_pos, count) = structurals(&$t, $p);
        assert!($idx.structural_count() == count);
        assert!($idx.structural_pos($p) == want_pos);
        assert!($idx.structural_index($p) == ordinal_of(&$t, $p));
        kani::cover!($n < 4 || (count >= 3 && $p == 2));
        kani::cover!(ordinal_of(&$t, $p) == Some(1));
    };
    // matching close of every container
    (@close, $idx:ident, $t:ident, $p:ident, $n:expr) => {
        let fc = $idx.find_close(&$t, $p);
        if $p < $n && ($t[$p] == b'{' || $t[$p] == b'[') && outside_strings(&$t, $p) {
            assert!(fc == matching_close(&$t, $p));
            assert!(fc.is_some());
        }
        kani::cover!($p > 0 && $p < $n && $t[$p] == b'[' && outside_strings(&$t, $p));
    };
    // skip each value to the byte just after it
    (@skip, $idx:ident, $t:ident, $p:ident, $n:expr) => {
        if $p < $n && starts_value(&$t, $p) {
            assert!($idx.skip_value(&$t, $p) == Some(value_end(&$t, $p)));
        }
        kani::cover!($p > 0 && $p < $n && $t[$p] == b'"' && starts_value(&$t, $p));
        kani::cover!($p > 0 && $p < $n && $t[$p] == b'[' && starts_value(&$t, $p));
    };
}
valid_doc!(c32_structural_len2, structural, 2);
valid_doc!(c32_structural_len4, structural, 4);
valid_doc!(c32_structural_len6, structural, 6);
valid_doc!(c32_structural_len8, structural, 8);
valid_doc!(c32_close_len4, close, 4);
valid_doc!(c32_close_len6, close, 6);
valid_doc!(c32_close_len8, close, 8);
valid_doc!(c32_skip_len4, skip, 4);
valid_doc!(c32_skip_len6, skip, 6);
valid_doc!(c32_skip_len8, skip, 8);

#[kani::proof]
#[kani::stub(alloc::vec::Vec::push, crate::stubs::push_no_grow)]
#[kani::unwind(10)]
#[kani::stub(std_detect::detect::__is_feature_detected::avx2, no)]
#[kani::stub(succinctly::util::simd::x86::has_fast_bmi2, no)]
#[kani::stub(core::arch::x86_64::_mm_min_epu8, models::mm_min_epu8)]
#[kani::stub(core::arch::x86_64::_mm_sub_epi8, models::mm_sub_epi8)]
fn c32_witness_must_fail() {
    let t: [u8; 4] = kani::any();
    kani::assume(recognise::<4>(&t, 128) == Verdict::Accept);
    let idx = SimpleJsonIndex::build(&t);
    // wrong on purpose: claims a 4-byte document never has 4 structural bytes
    assert!(idx.structural_count() < 4);
    core::mem::forget(idx);
}

#!/bin/bash
# usage: confirm_seed.sh <ID> [features-for-demo]
# Confirms a seeded change in its scratch worktree /tmp/wt_<ID>: (1) full existing test suite passes with the change,
# (2) the demonstration fails with the change, (3) passes without it. Writes /tmp/seed_<ID>/confirm.txt
ID=$1; FEAT=${2:-}
WT=/tmp/wt_$ID; S=/tmp/seed_$ID
export CARGO_NET_OFFLINE=true
cd $WT || exit 2
out=$S/confirm.txt; : > $out
git diff > $S/patch_now.diff
cmp -s $S/patch_now.diff $S/patch.diff && echo "patch.diff matches worktree diff" >> $out || echo "WARNING: patch.diff differs from worktree diff" >> $out
echo "== full suite with change" >> $out
if command -v cargo-nextest >/dev/null 2>&1; then
  cargo nextest run --workspace --no-fail-fast --test-threads 8 --offline > $S/suite.log 2>&1; rc=$?
else
  cargo test --workspace --no-fail-fast --offline > $S/suite.log 2>&1; rc=$?
fi
echo "suite rc=$rc" >> $out; grep -E "Summary|test result:|FAIL|failed" $S/suite.log | tail -15 >> $out
cp $S/demo.rs tests/seed_demo.rs
echo "== demo with change (must fail)" >> $out
cargo test --offline $FEAT --test seed_demo > $S/demo_with.log 2>&1; echo "rc=$?" >> $out; grep -E "test result:" $S/demo_with.log >> $out
git apply -R $S/patch.diff
echo "== demo without change (must pass)" >> $out
cargo test --offline $FEAT --test seed_demo > $S/demo_without.log 2>&1; echo "rc=$?" >> $out; grep -E "test result:" $S/demo_without.log >> $out
git apply $S/patch.diff
rm -f tests/seed_demo.rs
echo done >> $out
